#!/usr/bin/env python3
"""Regenerates MANIFEST.json from rules/props.py (single source of truth for claims)."""
import json, os, sys
sys.path.insert(0, os.path.join(os.path.dirname(os.path.abspath(__file__)), "rules"))
import props

NA = props.NOT_APPLICABLE
checks = []
for pid in sorted(props.PROPS):
    sp = props.PROPS[pid]
    checks.append(dict(
        property_id=pid,
        quick_cmd="./verif check %s --tier quick" % pid,
        thorough_cmd="./verif check %s --tier thorough" % pid,
        evidence_file="/verif/evidence/%s.json" % pid,
        replay_cmd_template="./verif explain {path}",
        engine="xcpv-static",
        level_claimed=dict(category="other", text=sp["level_text"], design_ref="DESIGN.md section 4, " + pid),
        level_note=sp["level_note"],
        technique=sp["technique"],
    ))
m = dict(
    version=1,
    setup_cmd="./verif setup",
    hooks=dict(guard="tarka_xcp_verif", enable="none needed: the analysis reads the unmodified source (no hooks in /repo)",
               baseline_off_cmd="cd /repo && cargo test --workspace --no-fail-fast --offline",
               source_commits=[], add_only=True),
    engines=[dict(name="xcpv-static", path="/verif/driver + /verif/rules",
                  serves_properties=sorted(props.PROPS),
                  kind_free_text="static analysis: rustc_private MIR fact extractor (nightly driver as RUSTC_WORKSPACE_WRAPPER "
                                 "over /repo's working tree) + repository-specific rules in Python over resolved call sites, "
                                 "CFG/dominators, def-use/provenance, call graph and constant tables")],
    checks=checks,
    not_applicable=[dict(property_id=k, reason=v) for k, v in sorted(NA.items()) if k not in props.PROPS],
    notes="Every verdict is computed from /repo's current source without running xcp, its tests, a fuzzer or a solver. "
          "Each claimed property is decided only for the structural clauses listed in DESIGN.md section 4; level_note states the undecided remainder.",
)
json.dump(m, open(os.path.join(os.path.dirname(os.path.abspath(__file__)), "MANIFEST.json"), "w"), indent=1)
print("wrote MANIFEST.json:", len(checks), "checks,", len(m["not_applicable"]), "not applicable")
