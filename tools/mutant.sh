#!/bin/bash
# usage: mutant.sh <patch-file | revert:<commit-subject-substring>> <Cxx> [<Cxx>...]
# Applies one change to a scratch copy of /repo's HEAD (never to /repo), runs the given checks on it,
# prints their verdicts, removes the copy.  Exit 0 iff at least one given check reported a VIOLATION.
set -u
P="$1"; shift
S=$(mktemp -d /var/tmp/xcpv-mut.XXXXXX)
trap 'rm -rf "$S"' EXIT
git -C /repo archive HEAD | tar -x -C "$S"
if [[ "$P" == revert:* ]]; then
  C=$(git -C /repo log --format='%h %s' | grep -F "${P#revert:}" | head -1 | cut -d' ' -f1)
  [ -z "$C" ] && { echo "no such commit"; exit 2; }
  git -C /repo show "$C" | (cd "$S" && patch -R -p1 -s) || { echo "revert failed"; exit 2; }
else
  (cd "$S" && patch -p1 -s < "$P") || { echo "patch failed"; exit 2; }
fi
hit=1
for c in "$@"; do
  out=$(cd /verif && XCPV_REPO="$S" XCPV_NOEVIDENCE=1 ./verif check "$c" 2>&1)
  rc=$?
  echo "--- $c rc=$rc"
  echo "$out" | grep -E "VIOLATION|^  |ERROR|obligations" | sed "s|$S/||g" | head -${MUT_LINES:-12}
  [ $rc -eq 1 ] && hit=0
done
exit $hit
