#!/usr/bin/env python3
"""Checker self-tests: apply one small breaking change (a textual replacement, or the reverse of a
fix: commit) to a scratch copy of /repo's HEAD under /var/tmp, re-extract, run the named checks and
require a VIOLATION from at least one of them.  The mutants are compile-checked only; never run.

usage: mutants.py [--only name,..] [--prop Cxx] [--list] [-j N]
"""
import json, os, subprocess, sys, tempfile, shutil, concurrent.futures as cf

VERIF = os.path.dirname(os.path.dirname(os.path.abspath(__file__)))
SPEC = os.path.join(VERIF, "mutants", "mutants.json")


def prepare(m, repo="/repo"):
    s = tempfile.mkdtemp(prefix="xcpv-mut-", dir="/var/tmp")
    tar = subprocess.Popen(["git", "-C", repo, "archive", "HEAD"], stdout=subprocess.PIPE)
    subprocess.check_call(["tar", "-x", "-C", s], stdin=tar.stdout)
    tar.wait()
    if "revert" in m:
        log = subprocess.check_output(["git", "-C", repo, "log", "--format=%h %s"], text=True).splitlines()
        c = [l.split()[0] for l in log if m["revert"] in l]
        if not c:
            raise RuntimeError("no commit matching %r" % m["revert"])
        diff = subprocess.check_output(["git", "-C", repo, "show", c[0]])
        p = subprocess.run(["patch", "-R", "-p1", "-s"], input=diff, cwd=s)
        if p.returncode:
            raise RuntimeError("revert failed")
    for e in m.get("edits", []):
        path = os.path.join(s, e["file"])
        src = open(path).read()
        if src.count(e["old"]) != 1:
            raise RuntimeError("%s: anchor text occurs %d times in %s" % (m["name"], src.count(e["old"]), e["file"]))
        open(path, "w").write(src.replace(e["old"], e["new"]))
    return s


def run_one(m, props=None):
    try:
        s = prepare(m)
    except Exception as ex:
        return dict(name=m["name"], ok=False, detail="cannot build mutant: %s" % ex, results={})
    try:
        res = {}
        env = dict(os.environ, XCPV_REPO=s, XCPV_NOEVIDENCE="1", XCPV_CACHE_SUFFIX="mut")
        plist = props or m["expect"]
        if m.get("all_props"):
            sys.path.insert(0, os.path.join(VERIF, "rules"))
            import props as P
            plist = sorted(P.PROPS)
        for c in plist:
            p = subprocess.run([os.path.join(VERIF, "verif"), "check", c], env=env, cwd=VERIF,
                               stdout=subprocess.PIPE, stderr=subprocess.STDOUT, text=True)
            lines = [l.replace(s + "/", "") for l in p.stdout.splitlines() if l.startswith("  ") or "ERROR" in l]
            if p.returncode not in (0, 1):
                lines = [l.replace(s + "/", "") for l in p.stdout.splitlines()][-8:]
            res[c] = dict(rc=p.returncode, reports=lines[:8])
        caught = [c for c, r in res.items() if r["rc"] == 1]
        broken = [c for c, r in res.items() if r["rc"] not in (0, 1)]
        want = m.get("expect", [])
        ok = all(c in caught for c in want if c in res) and not broken
        if m.get("all_props"):
            ok = not caught and not broken
        return dict(name=m["name"], ok=ok, caught=caught, broken=broken, results=res, detail=m.get("what", ""))
    finally:
        shutil.rmtree(s, ignore_errors=True)
        import hashlib
        shutil.rmtree(os.path.join(VERIF, "out", "selftest", hashlib.sha256(s.encode()).hexdigest()[:10]), ignore_errors=True)


def main(argv):
    full = json.load(open(SPEC))
    spec = full["mutants"]
    if "--benign" in argv:
        # behaviour-preserving variants: no check may report anything
        spec = [dict(m, expect=[], all_props=True) for m in full.get("benign", [])]
    only = None
    prop = None
    jobs = 4
    if "--only" in argv:
        only = argv[argv.index("--only") + 1].split(",")
    if "--prop" in argv:
        prop = argv[argv.index("--prop") + 1]
    if "-j" in argv:
        jobs = int(argv[argv.index("-j") + 1])
    if "--list" in argv:
        for m in spec:
            print(m["name"], m["expect"], m.get("what", ""))
        return 0
    sel = [m for m in spec if (not only or m["name"] in only) and (not prop or prop in m["expect"] or m.get("all_props"))]
    bad = 0
    with cf.ThreadPoolExecutor(max_workers=jobs) as ex:
        for r in ex.map(lambda m: run_one(m, [prop] if prop and not m.get("all_props") else None), sel):
            print("%s %-34s caught_by=%s %s" % ("OK  " if r["ok"] else "MISS", r["name"], r.get("caught"), r.get("detail", "")[:70]))
            if not r["ok"]:
                bad += 1
                for c, rr in r["results"].items():
                    print("     %s rc=%s %s" % (c, rr["rc"], rr["reports"][:2]))
            elif "-v" in argv:
                for c, rr in r["results"].items():
                    print("     %s rc=%s %s" % (c, rr["rc"], rr["reports"][:2]))
    print("%d mutants, %d not caught" % (len(sel), bad))
    return 1 if bad else 0


if __name__ == "__main__":
    sys.exit(main(sys.argv[1:]))
