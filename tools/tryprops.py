import sys,json,os,subprocess,shutil,tempfile,concurrent.futures as cf
sys.path.insert(0,'/verif/tools'); import seeded as S
props=sys.argv[1].split(','); kind=sys.argv[2]   # seeded|benign
base='/verif/'+kind
ids=[d for d in sorted(os.listdir(base)) if os.path.isdir(os.path.join(base,d))]
def one(i):
    s=S.scratch()
    try:
        p=subprocess.run(['patch','-p1','-s','-i',os.path.join(base,i,'patch.diff')],cwd=s,stdout=subprocess.PIPE,stderr=subprocess.STDOUT)
        if p.returncode: return (i,'NOAPPLY',{})
        env=dict(os.environ,XCPV_REPO=s,XCPV_NOEVIDENCE='1',XCPV_CACHE_SUFFIX='mut')
        out={}
        for c in props:
            q=subprocess.run(['/verif/verif','check',c],env=env,cwd='/verif',stdout=subprocess.PIPE,stderr=subprocess.STDOUT,text=True)
            out[c]=(q.returncode,[l.strip().replace(s+'/','')[:200] for l in q.stdout.splitlines() if l.startswith('  ') or 'ERROR' in l][:3])
        return (i,'ok',out)
    finally:
        shutil.rmtree(s,ignore_errors=True)
with cf.ThreadPoolExecutor(max_workers=12) as ex:
    for i,st,out in ex.map(one,ids):
        fired=[c for c,(rc,ls) in out.items() if rc==1]; broken=[c for c,(rc,ls) in out.items() if rc not in (0,1)]
        print(i,st,'fired=',fired,'broken=',broken)
        if '-v' in sys.argv:
            for c,(rc,ls) in out.items():
                if rc!=0:
                    for l in ls: print('      ',c,l)
