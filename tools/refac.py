#!/usr/bin/env python3
"""Behaviour-preserving changes written by independent sub-agents (they saw nothing from /verif).
  refac.py import <REFAC dir> <prefix>      copy patches into /verif/benign/<prefix>-<k>/
  refac.py check [id..] [-j N] [--suite]    apply each to a scratch copy of /repo HEAD and run ALL checks:
                                            any VIOLATION is a false alarm to be triaged (rule too strict, or the
                                            change is not behaviour-preserving after all)
"""
import json, os, shutil, subprocess, sys, tempfile, concurrent.futures as cf
VERIF = os.path.dirname(os.path.dirname(os.path.abspath(__file__)))
BEN = os.path.join(VERIF, "benign")
sys.path.insert(0, os.path.join(VERIF, "tools"))
import seeded as S


def check(bid, suite=False):
    sys.path.insert(0, os.path.join(VERIF, "rules"))
    import props, hashlib
    s = S.scratch()
    try:
        p = subprocess.run(["patch", "-p1", "-s", "-i", os.path.join(BEN, bid, "patch.diff")], cwd=s,
                           stdout=subprocess.PIPE, stderr=subprocess.STDOUT, text=True)
        if p.returncode:
            return dict(id=bid, error="patch does not apply")
        res = dict(id=bid, fired={}, broken={})
        if suite:
            npass, failed = S.suite(s)
            res["suite_same_as_baseline"] = (failed == S.BASE_FAIL and npass == 128)
        env = dict(os.environ, XCPV_REPO=s, XCPV_NOEVIDENCE="1", XCPV_CACHE_SUFFIX="mut")
        for c in sorted(props.PROPS):
            q = subprocess.run([os.path.join(VERIF, "verif"), "check", c], env=env, cwd=VERIF, stdout=subprocess.PIPE,
                               stderr=subprocess.STDOUT, text=True)
            if q.returncode == 1:
                res["fired"][c] = [l.strip().replace(s + "/", "") for l in q.stdout.splitlines() if l.startswith("  ")][:6]
            elif q.returncode != 0:
                res["broken"][c] = q.stdout[-300:]
        return res
    finally:
        shutil.rmtree(s, ignore_errors=True)
        import hashlib
        shutil.rmtree(os.path.join(VERIF, "out", "selftest", hashlib.sha256(s.encode()).hexdigest()[:10]), ignore_errors=True)


def main(argv):
    if argv[0] == "import":
        src, prefix = argv[1], argv[2]
        for k in sorted(os.listdir(src)):
            d = os.path.join(src, k)
            if os.path.isdir(d) and os.path.exists(os.path.join(d, "patch.diff")):
                dst = os.path.join(BEN, "%s-%s" % (prefix, k))
                os.makedirs(dst, exist_ok=True)
                for f in ("patch.diff", "README.md"):
                    if os.path.exists(os.path.join(d, f)):
                        shutil.copy(os.path.join(d, f), os.path.join(dst, f))
                print("imported", dst)
        return 0
    jobs = int(argv[argv.index("-j") + 1]) if "-j" in argv else 6
    suite = "--suite" in argv
    ids = [a for a in argv[1:] if not a.startswith("-") and not a.isdigit()] or sorted(
        d for d in os.listdir(BEN) if os.path.isdir(os.path.join(BEN, d)))
    open_ = {}
    if os.path.exists(os.path.join(BEN, "OPEN.json")):
        open_ = {k: v for k, v in json.load(open(os.path.join(BEN, "OPEN.json"))).items() if not k.startswith("_")}
    out = {}
    with cf.ThreadPoolExecutor(max_workers=jobs) as ex:
        for r in ex.map(lambda b: check(b, suite), ids):
            out[r["id"]] = r
            print(r["id"], "QUIET" if not r.get("fired") and not r.get("broken") and not r.get("error") else
                  ("OPEN(known false alarm)" if r["id"] in open_ and not r.get("broken") else "FIRED"),
                  sorted(r.get("fired", {})), r.get("error", ""), sorted(r.get("broken", {})), r.get("suite_same_as_baseline", ""))
            for c, ls in r.get("fired", {}).items():
                for l in ls[:3]:
                    print("      ", c, l[:230])
            sys.stdout.flush()
    json.dump(out, open(os.path.join(VERIF, "out", "benign-check.json"), "w"), indent=1)
    return 0


if __name__ == "__main__":
    sys.exit(main(sys.argv[1:]))
