#!/usr/bin/env python3
"""Freeze the per-property, per-rule instance counts of the *reviewed* tree into tables/floors.json.
A later run whose rule matches fewer instances fails closed (a rule matching nothing passes vacuously forever).
Run by hand after reviewing `evidence/*.json`; never at check time."""
import json, os, subprocess, sys
V = os.path.dirname(os.path.dirname(os.path.abspath(__file__)))
sys.path.insert(0, os.path.join(V, "rules"))
import props
out = {}
for pid in sorted(props.PROPS):
    subprocess.run([os.path.join(V, "verif"), "check", pid], cwd=V, stdout=subprocess.DEVNULL,
                   env=dict(os.environ, XCPV_NO_FLOORS="1"))
    ev = json.load(open(os.path.join(V, "evidence", pid + ".json")))
    out[pid] = {r: v["instances"] for r, v in ev["coverage"]["by_rule"].items() if r not in ("ANCHOR", "R-RANGE", "R-TILE")}
json.dump(out, open(os.path.join(V, "tables", "floors.json"), "w"), indent=1, sort_keys=True)
print(json.dumps(out, indent=1))
