#!/bin/bash
# Runs /repo's suite (guard off: there are no hooks) and compares with the pinned baseline:
# exactly the 7 always-fail tests may fail.
cd ${1:-/repo} && cargo test --workspace --no-fail-fast --offline 2>&1 | grep -E "^test .* \.\.\. (ok|FAILED)" | sort > /var/tmp/xcpv-tests.txt
P=$(grep -c "\.\.\. ok" /var/tmp/xcpv-tests.txt); F=$(grep "FAILED" /var/tmp/xcpv-tests.txt | sed 's/ \.\.\. FAILED//' | sort | tr '\n' ' ')
echo "passed=$P failed: $F"
EXP="test dest_file_exists_not_writable::test_with_parallel_block_driver test dest_file_exists_not_writable::test_with_parallel_file_driver test linux::tests::test_reflink test test::file_copy_reflink_always::test_with_parallel_block_driver test test::file_copy_reflink_always::test_with_parallel_file_driver test unreadable_file_error::test_with_parallel_block_driver test unreadable_file_error::test_with_parallel_file_driver "
if [ "$F" == "$EXP" ]; then echo "BASELINE-OK"; else echo "BASELINE-DIFFERS"; exit 1; fi
