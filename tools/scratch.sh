#!/bin/sh
# usage: tools/scratch.sh <patch.diff> -> prints a scratch copy of /repo's tree with the patch applied (caller removes it)
set -e
d=$(mktemp -d /var/tmp/xcpv-scr-XXXXXX)
git -C /repo archive HEAD | tar -x -C "$d"
patch -p1 -s -d "$d" -i "$1"
echo "$d"
