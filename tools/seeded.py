#!/usr/bin/env python3
"""Seeded breaking changes written by independent sub-agents (each saw only the property text).

  seeded.py import <agent SEED/<n> dir> <id> <property>   copy patch/demo/readme into /verif/seeded/<id>/
  seeded.py confirm [id..] [-j N]   in a scratch copy of /repo HEAD: patch applies, builds, suite == baseline,
                                    demo fails with the patch and passes without it
  seeded.py check [id..] [-j N]     apply to a scratch copy, run all checks, report which ones fire
Scratch copies live under /var/tmp and are removed with their build output. Nothing is applied to /repo.
"""
import json, os, shutil, subprocess, sys, tempfile, concurrent.futures as cf

VERIF = os.path.dirname(os.path.dirname(os.path.abspath(__file__)))
SEEDED = os.path.join(VERIF, "seeded")
BASE_FAIL = {"linux::tests::test_reflink", "dest_file_exists_not_writable::test_with_parallel_block_driver",
             "dest_file_exists_not_writable::test_with_parallel_file_driver",
             "unreadable_file_error::test_with_parallel_block_driver", "unreadable_file_error::test_with_parallel_file_driver",
             "test::file_copy_reflink_always::test_with_parallel_block_driver",
             "test::file_copy_reflink_always::test_with_parallel_file_driver"}


def scratch():
    s = tempfile.mkdtemp(prefix="xcpv-seed-", dir="/var/tmp")
    tar = subprocess.Popen(["git", "-C", "/repo", "archive", "HEAD"], stdout=subprocess.PIPE)
    subprocess.check_call(["tar", "-x", "-C", s], stdin=tar.stdout)
    tar.wait()
    # demos use git stash/status in places: make it a repository of its own
    subprocess.run("git init -q && git add -A && git -c user.email=a@b -c user.name=x commit -qm base", shell=True, cwd=s,
                   stdout=subprocess.DEVNULL, stderr=subprocess.DEVNULL)
    return s


def apply_patch(s, sid):
    p = subprocess.run(["patch", "-p1", "-s", "-i", os.path.join(SEEDED, sid, "patch.diff")], cwd=s,
                       stdout=subprocess.PIPE, stderr=subprocess.STDOUT, text=True)
    return p.returncode == 0, p.stdout[-500:]


def place_demo(s, sid):
    meta = json.load(open(os.path.join(SEEDED, sid, "meta.json")))
    rel = meta["demo_dir"]           # e.g. SEED/1
    d = os.path.join(s, rel)
    os.makedirs(d, exist_ok=True)
    for f in os.listdir(os.path.join(SEEDED, sid)):
        if f not in ("meta.json",):
            src = os.path.join(SEEDED, sid, f)
            if os.path.isfile(src):
                shutil.copy(src, os.path.join(d, f))
    return os.path.join(rel, meta["demo"])


def run_demo(s, demo, timeout=600):
    try:
        p = subprocess.run(["bash", demo, s], cwd=s, stdout=subprocess.PIPE, stderr=subprocess.STDOUT, text=True, timeout=timeout)
        return p.returncode, p.stdout[-1500:]
    except subprocess.TimeoutExpired:
        return 124, "timeout"


def suite(s):
    p = subprocess.run("cargo test --workspace --no-fail-fast --offline 2>&1 | grep -E '^test .* \\.\\.\\. (ok|FAILED)'",
                       shell=True, cwd=s, stdout=subprocess.PIPE, text=True)
    ok = sum(1 for l in p.stdout.splitlines() if l.endswith("... ok"))
    failed = set(l.split()[1] for l in p.stdout.splitlines() if l.endswith("FAILED"))
    return ok, failed


def confirm(sid):
    res = dict(id=sid)
    s = scratch()
    try:
        demo = place_demo(s, sid)
        # (round-8 demos expect <root>/target/debug/xcp to exist already)
        subprocess.run(["cargo", "build", "--workspace", "--offline"], cwd=s, stdout=subprocess.PIPE, stderr=subprocess.STDOUT, text=True)
        rc0, out0 = run_demo(s, demo)
        res["demo_without_patch_rc"] = rc0
        ok, msg = apply_patch(s, sid)
        res["applies"] = ok
        if not ok:
            res["detail"] = msg
            return res
        b = subprocess.run(["cargo", "build", "--workspace", "--offline"], cwd=s, stdout=subprocess.PIPE, stderr=subprocess.STDOUT, text=True)
        res["builds"] = b.returncode == 0
        npass, failed = suite(s)
        res["suite_passed"] = npass
        res["suite_failed_beyond_baseline"] = sorted(failed - BASE_FAIL)
        res["suite_same_as_baseline"] = (failed == BASE_FAIL and npass == 128)
        rc1, out1 = run_demo(s, demo)
        res["demo_with_patch_rc"] = rc1
        res["demo_tail"] = out1[-400:]
        res["confirmed"] = bool(res["builds"] and res["suite_same_as_baseline"] and rc1 != 0 and rc0 == 0)
        return res
    finally:
        shutil.rmtree(s, ignore_errors=True)


def check(sid):
    sys.path.insert(0, os.path.join(VERIF, "rules"))
    import props
    s = scratch()
    try:
        ok, msg = apply_patch(s, sid)
        if not ok:
            return dict(id=sid, error="patch does not apply: " + msg)
        env = dict(os.environ, XCPV_REPO=s, XCPV_NOEVIDENCE="1", XCPV_CACHE_SUFFIX="mut")
        fired = {}
        broken = {}
        for c in sorted(props.PROPS):
            p = subprocess.run([os.path.join(VERIF, "verif"), "check", c], env=env, cwd=VERIF, stdout=subprocess.PIPE,
                               stderr=subprocess.STDOUT, text=True)
            if p.returncode == 1:
                fired[c] = [l.strip().replace(s + "/", "") for l in p.stdout.splitlines() if l.startswith("  ")][:4]
            elif p.returncode != 0:
                broken[c] = p.stdout[-300:]
        return dict(id=sid, fired=fired, broken=broken)
    finally:
        shutil.rmtree(s, ignore_errors=True)
        import hashlib
        shutil.rmtree(os.path.join(VERIF, "out", "selftest", hashlib.sha256(s.encode()).hexdigest()[:10]), ignore_errors=True)


def main(argv):
    cmd = argv[0]
    jobs = int(argv[argv.index("-j") + 1]) if "-j" in argv else 5
    ids = [a for a in argv[1:] if not a.startswith("-") and not a.isdigit()]
    if cmd == "import":
        src, sid, prop = argv[1], argv[2], argv[3]
        d = os.path.join(SEEDED, sid)
        os.makedirs(d, exist_ok=True)
        demo = None
        for f in os.listdir(src):
            fp = os.path.join(src, f)
            if os.path.isfile(fp) and os.path.getsize(fp) < 200000 and not f.endswith((".log", ".txt", ".out")):
                shutil.copy(fp, os.path.join(d, f))
                if f.startswith("demo") and f.endswith(".sh"):
                    demo = f
        rel = os.path.relpath(src, os.path.dirname(os.path.dirname(src.rstrip("/"))))
        meta = dict(id=sid, property=prop, demo=demo or "demo.sh", demo_dir=rel, origin="independent sub-agent, saw only the property text")
        json.dump(meta, open(os.path.join(d, "meta.json"), "w"), indent=1)
        print("imported", sid, meta)
        return 0
    if not ids:
        ids = sorted(d for d in os.listdir(SEEDED) if os.path.isdir(os.path.join(SEEDED, d)))
    if cmd == "record":
        # write the last `check` results into each meta.json and regenerate INDEX.md
        res = json.load(open(os.path.join(VERIF, "out", "seeded-check.json")))
        rows = []
        for sid in ids:
            mp = os.path.join(SEEDED, sid, "meta.json")
            meta = json.load(open(mp))
            r = res.get(sid)
            if r and "fired" in r:
                sc = meta.setdefault("static_checks", {})
                sc["fired"] = sorted(r["fired"])
                sc["first_reports"] = {c: (v[0] if v else "") for c, v in sorted(r["fired"].items())}
                sc["checker_errors"] = sorted(r.get("broken", {}))
                sc["how"] = "tools/seeded.py check (all quick checks on a scratch copy with the patch applied)"
                json.dump(meta, open(mp, "w"), indent=1)
            sc = meta.get("static_checks", {})
            cb = meta.get("confirmed_by_me", {})
            rows.append("| %s | %s | %s | %s | %s | %s |" % (
                sid, meta.get("breaks", meta.get("property")), "yes" if cb.get("confirmed") else "no",
                "yes" if sc.get("reported_at_first_attempt") else "no", ", ".join(sc.get("fired", [])) or "-- (miss)",
                (meta.get("needs_to_manifest") or "")[:120]))
        old = open(os.path.join(SEEDED, "INDEX.md")).read()
        head = old[:old.index("| id |")]
        tail = ""
        body_end = old.rfind("\n|")
        rest = old[body_end:].split("\n", 2)
        tail = rest[2] if len(rest) > 2 else ""
        open(os.path.join(SEEDED, "INDEX.md"), "w").write(
            head + "| id | breaks | confirmed | reported at first attempt | quick checks that report it now | needs |\n|---|---|---|---|---|---|\n"
            + "\n".join(rows) + "\n" + tail)
        print("recorded", len(rows))
        return 0
    fn = confirm if cmd == "confirm" else check
    out = {}
    with cf.ThreadPoolExecutor(max_workers=jobs) as ex:
        for r in ex.map(fn, ids):
            out[r["id"]] = r
            print(json.dumps(r)[:1200])
            sys.stdout.flush()
    json.dump(out, open(os.path.join(VERIF, "out", "seeded-%s.json" % cmd), "w"), indent=1)
    return 0


if __name__ == "__main__":
    sys.exit(main(sys.argv[1:]))
