// Minimal JSON tree + serialiser (the driver has zero Cargo dependencies).
pub enum J {
    B(bool),
    N(i128),
    Str(String),
    Arr(Vec<J>),
    Obj(Vec<(String, J)>),
}

impl J {
    pub fn obj() -> J {
        J::Obj(Vec::new())
    }
    pub fn s(x: &str) -> J {
        J::Str(x.to_string())
    }
    pub fn n(x: i128) -> J {
        J::N(x)
    }
    pub fn b(x: bool) -> J {
        J::B(x)
    }
    pub fn put(&mut self, k: &str, v: J) {
        if let J::Obj(items) = self {
            if let Some(slot) = items.iter_mut().find(|(kk, _)| kk == k) {
                slot.1 = v;
            } else {
                items.push((k.to_string(), v));
            }
        }
    }
    fn esc(s: &str, out: &mut String) {
        out.push('"');
        for c in s.chars() {
            match c {
                '"' => out.push_str("\\\""),
                '\\' => out.push_str("\\\\"),
                '\n' => out.push_str("\\n"),
                '\r' => out.push_str("\\r"),
                '\t' => out.push_str("\\t"),
                c if (c as u32) < 0x20 => out.push_str(&format!("\\u{:04x}", c as u32)),
                c => out.push(c),
            }
        }
        out.push('"');
    }
    fn write(&self, out: &mut String) {
        match self {
            J::B(b) => out.push_str(if *b { "true" } else { "false" }),
            J::N(n) => out.push_str(&n.to_string()),
            J::Str(s) => J::esc(s, out),
            J::Arr(a) => {
                out.push('[');
                for (i, x) in a.iter().enumerate() {
                    if i > 0 {
                        out.push(',');
                    }
                    x.write(out);
                }
                out.push(']');
            }
            J::Obj(o) => {
                out.push('{');
                for (i, (k, v)) in o.iter().enumerate() {
                    if i > 0 {
                        out.push(',');
                    }
                    J::esc(k, out);
                    out.push(':');
                    v.write(out);
                }
                out.push('}');
            }
        }
    }
    pub fn to_string(&self) -> String {
        let mut s = String::with_capacity(1 << 20);
        self.write(&mut s);
        s
    }
}
