// xcpv-driver: a rustc_private driver that dumps a MIR fact base (JSON) for
// every workspace crate it is wrapped around (RUSTC_WORKSPACE_WRAPPER).
//
// It decides nothing: all rules live in /verif/rules (Python).  The driver's
// only job is to serialise the *resolved, type-checked* program faithfully:
// resolved callees, CFG, places with field names, aggregate kinds, switch
// tables, expansion origin of every span, ADT tables, trait impls, visibility.
//
// Environment:
//   XCPV_OUT    directory to write <crate>-<type>.json into (required to emit)
//   XCPV_NONCE  per-run nonce copied into every file (freshness proof)
//   XCPV_CFG    configuration label copied into every file
#![feature(rustc_private)]
#![allow(clippy::all)]

extern crate rustc_abi;
extern crate rustc_driver;
extern crate rustc_hir;
extern crate rustc_interface;
extern crate rustc_middle;
extern crate rustc_session;
extern crate rustc_span;

mod json;

use json::J;
use rustc_driver::{run_compiler, Callbacks, Compilation};
use rustc_hir::def::DefKind;
use rustc_hir::def_id::{DefId, LocalDefId};
use rustc_interface::interface::Compiler;
use rustc_middle::mir::{
    self, AggregateKind, BasicBlockData, Body, BorrowKind, CastKind, Const, ConstValue, Operand,
    Place, PlaceTy, ProjectionElem, Rvalue, StatementKind, TerminatorKind, VarDebugInfoContents,
};
use rustc_middle::ty::print::{with_crate_prefix, with_no_trimmed_paths, with_no_visible_paths};
use rustc_middle::ty::{self, GenericArgsRef, Instance, InstanceKind, Ty, TyCtxt, TypingEnv};
use rustc_span::{ExpnKind, Span};

struct Cb;

impl Callbacks for Cb {
    fn after_analysis<'tcx>(&mut self, _c: &Compiler, tcx: TyCtxt<'tcx>) -> Compilation {
        if let Ok(out) = std::env::var("XCPV_OUT") {
            // Do not emit facts for a crate that does not type-check.
            if tcx.dcx().has_errors().is_none() {
                emit(tcx, &out);
            }
        }
        Compilation::Continue
    }
}

fn main() {
    let mut args: Vec<String> = std::env::args().collect();
    // Wrapper protocol: argv = [driver, <path to rustc>, rustc args...]
    if args.len() > 1 && (args[1].ends_with("rustc") || args[1].contains("/rustc")) {
        args.remove(1);
    }
    run_compiler(&args, &mut Cb);
}

// Canonical, crate-qualified, re-export-independent spelling of paths and types:
// the same item prints identically from its defining crate and from a user crate.
thread_local! {
    static LOCAL_CRATE_NAME: std::cell::RefCell<String> = std::cell::RefCell::new(String::new());
}

fn canon(s: String) -> String {
    LOCAL_CRATE_NAME.with(|n| s.replace("crate::", &format!("{}::", n.borrow())))
}

fn tystr<'tcx>(ty: Ty<'tcx>) -> String {
    canon(with_no_visible_paths!(with_crate_prefix!(with_no_trimmed_paths!(ty.to_string()))))
}

fn defpath(tcx: TyCtxt<'_>, did: DefId) -> String {
    canon(with_no_visible_paths!(with_crate_prefix!(with_no_trimmed_paths!(tcx.def_path_str(did)))))
}

fn span_json(tcx: TyCtxt<'_>, sp: Span) -> J {
    let sm = tcx.sess.source_map();
    let mut o = J::obj();
    let user = sp.source_callsite();
    let lo = sm.lookup_char_pos(user.lo());
    o.put("file", J::s(&format!("{}", lo.file.name.prefer_local_unconditionally())));
    o.put("line", J::n(lo.line as i128));
    o.put("col", J::n(lo.col.0 as i128 + 1));
    if sp.from_expansion() {
        o.put("exp", J::b(true));
        // innermost expansion
        let ed = sp.ctxt().outer_expn_data();
        match ed.kind {
            ExpnKind::Desugaring(k) => {
                o.put("desugar", J::s(&format!("{:?}", k)));
            }
            ExpnKind::Macro(_, name) => {
                o.put("mac", J::s(name.as_str()));
                if let Some(d) = ed.macro_def_id {
                    o.put("mac_def", J::s(&defpath(tcx, d)));
                }
            }
            ExpnKind::AstPass(k) => {
                o.put("astpass", J::s(&format!("{:?}", k)));
            }
            ExpnKind::Root => {}
        }
        // full backtrace, innermost first; the last Macro entry is what the user wrote
        let mut chain = Vec::new();
        for e in sp.macro_backtrace() {
            match e.kind {
                ExpnKind::Macro(_, name) => {
                    let p = e.macro_def_id.map(|d| defpath(tcx, d)).unwrap_or_default();
                    chain.push(J::s(&format!("{}|{}", name.as_str(), p)));
                }
                ExpnKind::Desugaring(k) => chain.push(J::s(&format!("desugar:{:?}", k))),
                ExpnKind::AstPass(k) => chain.push(J::s(&format!("astpass:{:?}", k))),
                ExpnKind::Root => {}
            }
        }
        o.put("chain", J::Arr(chain));
    }
    o
}

struct Cx<'a, 'tcx> {
    tcx: TyCtxt<'tcx>,
    body: &'a Body<'tcx>,
    owner: DefId,
}

impl<'a, 'tcx> Cx<'a, 'tcx> {
    fn place(&self, p: &Place<'tcx>) -> J {
        let mut o = J::obj();
        o.put("l", J::n(p.local.as_usize() as i128));
        let mut projs = Vec::new();
        let mut pty = PlaceTy::from_ty(self.body.local_decls[p.local].ty);
        for elem in p.projection.iter() {
            match elem {
                ProjectionElem::Deref => projs.push(J::s("deref")),
                ProjectionElem::Field(f, _) => {
                    let mut fo = J::obj();
                    fo.put("f", J::n(f.as_usize() as i128));
                    if let ty::Adt(adt, _) = pty.ty.kind() {
                        let vi = pty.variant_index.unwrap_or(rustc_abi::FIRST_VARIANT);
                        if adt.is_enum() || adt.is_struct() || adt.is_union() {
                            if let Some(fd) = adt.variant(vi).fields.get(f) {
                                fo.put("n", J::s(fd.name.as_str()));
                            }
                        }
                        fo.put("adt", J::s(&defpath(self.tcx, adt.did())));
                    } else if let ty::Closure(..) = pty.ty.kind() {
                        fo.put("upvar", J::b(true));
                    }
                    projs.push(fo);
                }
                ProjectionElem::Downcast(name, vi) => {
                    let mut d = J::obj();
                    let nm = match name {
                        Some(s) => s.as_str().to_string(),
                        None => {
                            if let ty::Adt(adt, _) = pty.ty.kind() {
                                adt.variant(vi).name.as_str().to_string()
                            } else {
                                format!("#{}", vi.as_usize())
                            }
                        }
                    };
                    d.put("dc", J::s(&nm));
                    projs.push(d);
                }
                ProjectionElem::Index(l) => {
                    let mut d = J::obj();
                    d.put("idx", J::n(l.as_usize() as i128));
                    projs.push(d);
                }
                ProjectionElem::ConstantIndex { .. } => projs.push(J::s("cidx")),
                ProjectionElem::Subslice { .. } => projs.push(J::s("subslice")),
                ProjectionElem::OpaqueCast(_) => projs.push(J::s("opaque")),
                ProjectionElem::UnwrapUnsafeBinder(_) => projs.push(J::s("unbinder")),
            }
            pty = pty.projection_ty(self.tcx, elem);
        }
        if !projs.is_empty() {
            o.put("p", J::Arr(projs));
        }
        o
    }

    fn place_ty(&self, p: &Place<'tcx>) -> Ty<'tcx> {
        p.ty(&self.body.local_decls, self.tcx).ty
    }

    fn constant(&self, c: &mir::ConstOperand<'tcx>) -> J {
        let mut o = J::obj();
        let ty = c.const_.ty();
        o.put("ty", J::s(&tystr(ty)));
        match ty.kind() {
            ty::FnDef(did, args) => {
                o.put("fn", self.callee(*did, args));
            }
            ty::Closure(did, _) => {
                o.put("closure", J::s(&defpath(self.tcx, *did)));
            }
            _ => {}
        }
        // scalar ints / bools / chars, evaluated without ICE on odd widths
        let is_scalar = ty.is_integral() || ty.is_bool() || ty.is_char();
        if is_scalar {
            let typing_env = TypingEnv::post_analysis(self.tcx, self.owner);
            if let Some(si) = c.const_.try_eval_scalar_int(self.tcx, typing_env) {
                let size = si.size();
                let bits = si.to_bits(size);
                if ty.is_signed() {
                    let v = size.sign_extend(bits) as i128;
                    o.put("v", J::n(v));
                } else {
                    o.put("v", J::Str(bits.to_string()));
                    if bits <= i64::MAX as u128 {
                        o.put("v", J::n(bits as i128));
                    }
                }
            }
        }
        if let Const::Unevaluated(uv, _) = c.const_ {
            if let Some(pi) = uv.promoted {
                o.put("promoted", J::n(pi.as_usize() as i128));
            } else {
                o.put("unevaluated", J::s(&defpath(self.tcx, uv.def)));
            }
        }
        // arrays of small scalars (tables of error codes kept in a named `const`): the element values
        if let ty::Array(elem, _) = ty.kind() {
            let typing_env = TypingEnv::post_analysis(self.tcx, self.owner);
            if let Some(vals) = self.array_elems(c, *elem, typing_env) {
                o.put("elems", J::Arr(vals.into_iter().map(J::n).collect()));
            }
        }
        // string literals
        if let Const::Val(cv @ ConstValue::Slice { .. }, t) = c.const_ {
            if let ty::Ref(_, inner, _) = t.kind() {
                if inner.is_str() {
                    if let Some(bytes) = cv.try_get_slice_bytes_for_diagnostics(self.tcx) {
                        o.put("s", J::s(&String::from_utf8_lossy(bytes)));
                    }
                }
            }
        }
        o
    }

    fn array_elems(&self, c: &mir::ConstOperand<'tcx>, elem: Ty<'tcx>, typing_env: TypingEnv<'tcx>) -> Option<Vec<i128>> {
        let tcx = self.tcx;
        let layout = tcx.layout_of(typing_env.as_query_input(elem)).ok()?;
        let esz = layout.size.bytes() as usize;
        if !(esz == 1 || esz == 2 || esz == 4 || esz == 8) {
            return None;
        }
        let scalar_like = elem.is_integral() || matches!(elem.kind(), ty::Adt(..));
        if !scalar_like {
            return None;
        }
        let cv = c.const_.eval(tcx, typing_env, c.span).ok()?;
        if let ConstValue::Indirect { alloc_id, offset } = cv {
            let alloc = tcx.global_alloc(alloc_id).unwrap_memory();
            let inner = alloc.inner();
            let total = inner.len();
            let start = offset.bytes() as usize;
            if start > total {
                return None;
            }
            let bytes = inner.inspect_with_uninit_and_ptr_outside_interpreter(start..total);
            let n = bytes.len() / esz;
            if n > 64 {
                return None;
            }
            let mut out = Vec::new();
            for i in 0..n {
                let mut v: u128 = 0;
                for k in 0..esz {
                    v |= (bytes[i * esz + k] as u128) << (8 * k);
                }
                let mut sv = v as i128;
                if elem.is_signed() {
                    let shift = 128 - 8 * esz as u32;
                    sv = ((v << shift) as i128) >> shift;
                }
                out.push(sv);
            }
            return Some(out);
        }
        None
    }

    fn operand(&self, op: &Operand<'tcx>) -> J {
        let mut o = J::obj();
        match op {
            Operand::Copy(p) => o.put("cp", self.place(p)),
            Operand::Move(p) => o.put("mv", self.place(p)),
            Operand::Constant(c) => o.put("c", self.constant(c)),
            #[allow(unreachable_patterns)]
            _ => o.put("other", J::s("runtime_checks")),
        }
        o
    }

    fn callee(&self, did: DefId, args: GenericArgsRef<'tcx>) -> J {
        let tcx = self.tcx;
        let mut o = J::obj();
        o.put("orig", J::s(&defpath(tcx, did)));
        o.put("orig_krate", J::s(tcx.crate_name(did.krate).as_str()));
        let typing_env = TypingEnv::post_analysis(tcx, self.owner);
        let args_n = tcx
            .try_normalize_erasing_regions(typing_env, ty::Unnormalized::new_wip(args))
            .unwrap_or(args);
        let mut resolved = did;
        let mut kind = "unresolved".to_string();
        if let Ok(Some(inst)) = Instance::try_resolve(tcx, typing_env, did, args_n) {
            resolved = inst.def_id();
            kind = match inst.def {
                InstanceKind::Item(_) => "item".into(),
                InstanceKind::Virtual(..) => "virtual".into(),
                InstanceKind::ClosureOnceShim { .. } => "closure_once_shim".into(),
                InstanceKind::FnPtrShim(..) => "fn_ptr_shim".into(),
                InstanceKind::ReifyShim(..) => "reify_shim".into(),
                InstanceKind::DropGlue(..) => "drop_glue".into(),
                InstanceKind::CloneShim(..) => "clone_shim".into(),
                InstanceKind::Intrinsic(_) => "intrinsic".into(),
                InstanceKind::VTableShim(_) => "vtable_shim".into(),
                _ => "other_shim".into(),
            };
        }
        o.put("path", J::s(&defpath(tcx, resolved)));
        o.put("krate", J::s(tcx.crate_name(resolved.krate).as_str()));
        o.put("kind", J::s(&kind));
        o.put("local", J::b(resolved.is_local()));
        let targs: Vec<J> = args_n
            .iter()
            .filter_map(|a| a.as_type())
            .map(|t| J::s(&tystr(t)))
            .collect();
        if !targs.is_empty() {
            // closure / fn-item type arguments are what higher-order calls run
            let mut fv = Vec::new();
            for a in args_n.iter().filter_map(|a| a.as_type()) {
                collect_fn_values(tcx, a, &mut fv, 0);
            }
            o.put("targs", J::Arr(targs));
            if !fv.is_empty() {
                o.put("fnvals", J::Arr(fv.into_iter().map(|s| J::s(&s)).collect()));
            }
        }
        // trait of the original item (for trait-method identity)
        if let Some(tr) = tcx.trait_of_assoc(did) {
            o.put("trait", J::s(&defpath(tcx, tr)));
            // for Iterator adaptors: what the receiver yields (an adaptor over Result items can swallow errors)
            if Some(tr) == tcx.get_diagnostic_item(rustc_span::sym::Iterator) {
                if let Some(self_ty) = args_n.iter().filter_map(|a| a.as_type()).next() {
                    if let Some(item) = tcx
                        .associated_items(tr)
                        .in_definition_order()
                        .find(|i| i.name() == rustc_span::sym::Item)
                    {
                        let proj = Ty::new_projection(tcx, item.def_id, [self_ty]);
                        if let Ok(it) = tcx.try_normalize_erasing_regions(typing_env, ty::Unnormalized::new_wip(proj)) {
                            o.put("iter_item", J::s(&tystr(it)));
                        }
                    }
                }
            }
        }
        // impl self type when resolved into an inherent/trait impl
        if let Some(imp) = tcx.impl_of_assoc(resolved) {
            let st = tcx.type_of(imp).instantiate_identity().skip_norm_wip();
            o.put("impl_self", J::s(&tystr(st)));
        }
        o
    }

    fn rvalue(&self, rv: &Rvalue<'tcx>) -> J {
        let mut o = J::obj();
        match rv {
            Rvalue::Use(op, ..) => {
                o.put("k", J::s("use"));
                o.put("op", self.operand(op));
            }
            Rvalue::Repeat(op, _) => {
                o.put("k", J::s("repeat"));
                o.put("op", self.operand(op));
            }
            Rvalue::Ref(_, bk, p) => {
                o.put("k", J::s("ref"));
                o.put("mut", J::b(matches!(bk, BorrowKind::Mut { .. })));
                o.put("pl", self.place(p));
            }
            Rvalue::RawPtr(_, p) => {
                o.put("k", J::s("rawptr"));
                o.put("pl", self.place(p));
            }
            Rvalue::Cast(ck, op, ty) => {
                o.put("k", J::s("cast"));
                let ckn = match ck {
                    CastKind::Transmute => "transmute".to_string(),
                    other => format!("{:?}", other),
                };
                o.put("ck", J::s(&ckn));
                o.put("op", self.operand(op));
                o.put("ty", J::s(&tystr(*ty)));
            }
            Rvalue::BinaryOp(bop, ops) => {
                o.put("k", J::s("bin"));
                o.put("op", J::s(&format!("{:?}", bop)));
                o.put("a", self.operand(&ops.0));
                o.put("b", self.operand(&ops.1));
            }
            Rvalue::UnaryOp(uop, a) => {
                o.put("k", J::s("un"));
                o.put("op", J::s(&format!("{:?}", uop)));
                o.put("a", self.operand(a));
            }
            Rvalue::Discriminant(p) => {
                o.put("k", J::s("discr"));
                o.put("pl", self.place(p));
                let t = self.place_ty(p);
                o.put("ty", J::s(&tystr(t)));
                if let ty::Adt(adt, _) = t.kind() {
                    o.put("adt", J::s(&defpath(self.tcx, adt.did())));
                    if adt.is_enum() {
                        let mut vs = Vec::new();
                        for (vi, d) in adt.discriminants(self.tcx) {
                            let mut v = J::obj();
                            v.put("val", J::Str(d.val.to_string()));
                            v.put("name", J::s(adt.variant(vi).name.as_str()));
                            vs.push(v);
                        }
                        o.put("variants", J::Arr(vs));
                    }
                }
            }
            Rvalue::Aggregate(ak, fields) => {
                o.put("k", J::s("agg"));
                match &**ak {
                    AggregateKind::Array(_) => o.put("ak", J::s("array")),
                    AggregateKind::Tuple => o.put("ak", J::s("tuple")),
                    AggregateKind::Adt(did, vi, _, _, _) => {
                        o.put("ak", J::s("adt"));
                        o.put("adt", J::s(&defpath(self.tcx, *did)));
                        let adt = self.tcx.adt_def(*did);
                        let v = adt.variant(*vi);
                        o.put("variant", J::s(v.name.as_str()));
                        o.put(
                            "fnames",
                            J::Arr(v.fields.iter().map(|f| J::s(f.name.as_str())).collect()),
                        );
                    }
                    AggregateKind::Closure(did, _) => {
                        o.put("ak", J::s("closure"));
                        o.put("closure", J::s(&defpath(self.tcx, *did)));
                    }
                    AggregateKind::Coroutine(did, _) | AggregateKind::CoroutineClosure(did, _) => {
                        o.put("ak", J::s("coroutine"));
                        o.put("closure", J::s(&defpath(self.tcx, *did)));
                    }
                    AggregateKind::RawPtr(..) => o.put("ak", J::s("rawptr")),
                }
                o.put("fields", J::Arr(fields.iter().map(|f| self.operand(f)).collect()));
            }
            Rvalue::CopyForDeref(p) => {
                o.put("k", J::s("use"));
                let mut op = J::obj();
                op.put("cp", self.place(p));
                o.put("op", op);
                o.put("for_deref", J::b(true));
            }
            Rvalue::ThreadLocalRef(d) => {
                o.put("k", J::s("tls"));
                o.put("def", J::s(&defpath(self.tcx, *d)));
            }
            Rvalue::WrapUnsafeBinder(op, _) => {
                o.put("k", J::s("use"));
                o.put("op", self.operand(op));
            }
        }
        o
    }

    fn block(&self, bb: &BasicBlockData<'tcx>) -> J {
        let tcx = self.tcx;
        let mut o = J::obj();
        if bb.is_cleanup {
            o.put("cleanup", J::b(true));
        }
        let mut stmts = Vec::new();
        for st in &bb.statements {
            match &st.kind {
                StatementKind::Assign(b) => {
                    let (pl, rv) = &**b;
                    let mut s = J::obj();
                    s.put("lhs", self.place(pl));
                    s.put("rv", self.rvalue(rv));
                    s.put("span", span_json(tcx, st.source_info.span));
                    stmts.push(s);
                }
                StatementKind::SetDiscriminant { place, variant_index } => {
                    let mut s = J::obj();
                    s.put("lhs", self.place(place));
                    let mut rv = J::obj();
                    rv.put("k", J::s("setdiscr"));
                    rv.put("variant_idx", J::n(variant_index.as_usize() as i128));
                    s.put("rv", rv);
                    s.put("span", span_json(tcx, st.source_info.span));
                    stmts.push(s);
                }
                _ => {}
            }
        }
        o.put("stmts", J::Arr(stmts));
        let term = bb.terminator();
        let mut t = J::obj();
        t.put("span", span_json(tcx, term.source_info.span));
        match &term.kind {
            TerminatorKind::Goto { target } => {
                t.put("k", J::s("goto"));
                t.put("target", J::n(target.as_usize() as i128));
            }
            TerminatorKind::SwitchInt { discr, targets } => {
                t.put("k", J::s("switch"));
                t.put("op", self.operand(discr));
                t.put("op_ty", J::s(&tystr(discr.ty(&self.body.local_decls, tcx))));
                let mut ts = Vec::new();
                for (v, bbx) in targets.iter() {
                    ts.push(J::Arr(vec![J::Str(v.to_string()), J::n(bbx.as_usize() as i128)]));
                }
                t.put("targets", J::Arr(ts));
                t.put("otherwise", J::n(targets.otherwise().as_usize() as i128));
            }
            TerminatorKind::Return => t.put("k", J::s("return")),
            TerminatorKind::Unreachable => t.put("k", J::s("unreachable")),
            TerminatorKind::UnwindResume => t.put("k", J::s("resume")),
            TerminatorKind::UnwindTerminate(_) => t.put("k", J::s("abort")),
            TerminatorKind::Drop { place, target, unwind, .. } => {
                t.put("k", J::s("drop"));
                t.put("pl", self.place(place));
                let dty = self.place_ty(place);
                t.put("ty", J::s(&tystr(dty)));
                // ADTs with a user Drop impl contained in the dropped value (through generic
                // arguments, fields, tuples and closure captures): what this drop *may* run
                let mut dt = Vec::new();
                collect_dtors(tcx, dty, &mut dt, 0);
                dt.sort();
                dt.dedup();
                if !dt.is_empty() {
                    t.put("dtors", J::Arr(dt.into_iter().map(|s| J::s(&s)).collect()));
                }
                t.put("target", J::n(target.as_usize() as i128));
                if let mir::UnwindAction::Cleanup(u) = unwind {
                    t.put("unwind", J::n(u.as_usize() as i128));
                }
            }
            TerminatorKind::Call { func, args, destination, target, unwind, .. } => {
                t.put("k", J::s("call"));
                if let Some((did, gargs)) = func.const_fn_def() {
                    t.put("fn", self.callee(did, gargs));
                } else {
                    let mut f = J::obj();
                    f.put("indirect", self.operand(func));
                    f.put("ty", J::s(&tystr(func.ty(&self.body.local_decls, tcx))));
                    t.put("fn", f);
                }
                t.put("args", J::Arr(args.iter().map(|a| self.operand(&a.node)).collect()));
                t.put(
                    "arg_tys",
                    J::Arr(
                        args.iter()
                            .map(|a| J::s(&tystr(a.node.ty(&self.body.local_decls, tcx))))
                            .collect(),
                    ),
                );
                t.put("dest", self.place(destination));
                t.put("dest_ty", J::s(&tystr(self.place_ty(destination))));
                if let Some(tg) = target {
                    t.put("target", J::n(tg.as_usize() as i128));
                }
                if let mir::UnwindAction::Cleanup(u) = unwind {
                    t.put("unwind", J::n(u.as_usize() as i128));
                }
            }
            TerminatorKind::TailCall { func, args, .. } => {
                t.put("k", J::s("tailcall"));
                if let Some((did, gargs)) = func.const_fn_def() {
                    t.put("fn", self.callee(did, gargs));
                }
                t.put("args", J::Arr(args.iter().map(|a| self.operand(&a.node)).collect()));
            }
            TerminatorKind::Assert { cond, expected, target, msg, .. } => {
                t.put("k", J::s("assert"));
                t.put("cond", self.operand(cond));
                t.put("expected", J::b(*expected));
                t.put("target", J::n(target.as_usize() as i128));
                t.put("msg", J::s(&format!("{:?}", msg).chars().take(60).collect::<String>()));
            }
            TerminatorKind::FalseEdge { real_target, .. } => {
                t.put("k", J::s("goto"));
                t.put("target", J::n(real_target.as_usize() as i128));
            }
            TerminatorKind::FalseUnwind { real_target, .. } => {
                t.put("k", J::s("goto"));
                t.put("target", J::n(real_target.as_usize() as i128));
            }
            TerminatorKind::Yield { .. } => t.put("k", J::s("yield")),
            TerminatorKind::CoroutineDrop => t.put("k", J::s("coroutine_drop")),
            TerminatorKind::InlineAsm { .. } => t.put("k", J::s("asm")),
        }
        o.put("term", t);
        o
    }
}

// Function values hidden in a type argument: closures and fn items, also
// through references, tuples and adapters (one nesting level per recursion).
fn collect_fn_values<'tcx>(tcx: TyCtxt<'tcx>, t: Ty<'tcx>, out: &mut Vec<String>, depth: usize) {
    if depth > 4 {
        return;
    }
    match t.kind() {
        ty::Closure(d, _) => out.push(defpath(tcx, *d)),
        ty::FnDef(d, _) => out.push(defpath(tcx, *d)),
        ty::Ref(_, inner, _) => collect_fn_values(tcx, *inner, out, depth + 1),
        ty::Tuple(ts) => {
            for x in ts.iter() {
                collect_fn_values(tcx, x, out, depth + 1)
            }
        }
        ty::Adt(_, args) => {
            for a in args.iter().filter_map(|a| a.as_type()) {
                collect_fn_values(tcx, a, out, depth + 1)
            }
        }
        _ => {}
    }
}

fn collect_dtors<'tcx>(tcx: TyCtxt<'tcx>, t: Ty<'tcx>, out: &mut Vec<String>, depth: usize) {
    if depth > 6 {
        return;
    }
    match t.kind() {
        ty::Adt(adt, args) => {
            if adt.has_dtor(tcx) {
                out.push(defpath(tcx, adt.did()));
            }
            for a in args.iter().filter_map(|a| a.as_type()) {
                collect_dtors(tcx, a, out, depth + 1);
            }
            // fields of workspace-local ADTs (foreign ones are reached through their type arguments)
            if adt.did().is_local() {
                for v in adt.variants() {
                    for f in v.fields.iter() {
                        let ft = tcx.type_of(f.did).instantiate_identity().skip_norm_wip();
                        collect_dtors(tcx, ft, out, depth + 1);
                    }
                }
            }
        }
        ty::Closure(_, args) => {
            for u in args.as_closure().upvar_tys() {
                collect_dtors(tcx, u, out, depth + 1);
            }
        }
        ty::Tuple(ts) => {
            for x in ts.iter() {
                collect_dtors(tcx, x, out, depth + 1);
            }
        }
        ty::Array(inner, _) | ty::Slice(inner) => collect_dtors(tcx, *inner, out, depth + 1),
        _ => {}
    }
}

fn fn_json<'tcx>(tcx: TyCtxt<'tcx>, ldid: LocalDefId) -> Option<J> {
    let did = ldid.to_def_id();
    let dk = tcx.def_kind(did);
    if !matches!(dk, DefKind::Fn | DefKind::AssocFn | DefKind::Closure) {
        return None;
    }
    if !tcx.is_mir_available(did) {
        return None;
    }
    let body: &Body<'tcx> = tcx.optimized_mir(did);
    let cx = Cx { tcx, body, owner: did };
    let mut o = J::obj();
    o.put("path", J::s(&defpath(tcx, did)));
    o.put("kind", J::s(&format!("{:?}", dk)));
    o.put("span", span_json(tcx, tcx.def_span(did)));
    if matches!(dk, DefKind::Closure) {
        let parent = tcx.typeck_root_def_id(did);
        o.put("root", J::s(&defpath(tcx, parent)));
        o.put("parent", J::s(&defpath(tcx, tcx.parent(did))));
        let mut caps = Vec::new();
        for cp in tcx.closure_captures(ldid) {
            let mut c = J::obj();
            c.put("name", J::s(cp.to_symbol().as_str()));
            c.put("var", J::s(cp.var_ident.name.as_str()));
            c.put(
                "by",
                J::s(match cp.info.capture_kind {
                    ty::UpvarCapture::ByValue => "value",
                    ty::UpvarCapture::ByUse => "use",
                    ty::UpvarCapture::ByRef(_) => "ref",
                }),
            );
            c.put("ty", J::s(&tystr(cp.place.ty())));
            caps.push(c);
        }
        o.put("captures", J::Arr(caps));
    } else {
        let vis = tcx.visibility(did);
        o.put("pub", J::b(vis.is_public()));
        let ev = tcx.effective_visibilities(());
        o.put("exported", J::b(ev.is_exported(ldid)));
        o.put("reachable", J::b(ev.is_reachable(ldid)));
        if let Some(imp) = tcx.impl_of_assoc(did) {
            let st = tcx.type_of(imp).instantiate_identity().skip_norm_wip();
            o.put("impl_self", J::s(&tystr(st)));
            if let Some(tr) = tcx.impl_opt_trait_ref(imp) {
                o.put("impl_trait", J::s(&defpath(tcx, tr.skip_binder().def_id)));
            }
        }
    }
    o.put("argc", J::n(body.arg_count as i128));
    let mut locals = Vec::new();
    for (_l, d) in body.local_decls.iter_enumerated() {
        let mut lo = J::obj();
        lo.put("ty", J::s(&tystr(d.ty)));
        locals.push(lo);
    }
    o.put("locals", J::Arr(locals));
    let mut dbg = Vec::new();
    for vdi in &body.var_debug_info {
        if let VarDebugInfoContents::Place(p) = &vdi.value {
            let mut d = J::obj();
            d.put("name", J::s(vdi.name.as_str()));
            d.put("pl", cx.place(p));
            if let Some(ai) = vdi.argument_index {
                d.put("arg", J::n(ai as i128));
            }
            dbg.push(d);
        }
    }
    o.put("debug", J::Arr(dbg));
    let mut blocks = Vec::new();
    for (_bb, data) in body.basic_blocks.iter_enumerated() {
        blocks.push(cx.block(data));
    }
    o.put("blocks", J::Arr(blocks));
    // promoted constants (`&Reflink::Always`, ...): their defining statements
    let mut proms = Vec::new();
    for pbody in tcx.promoted_mir(did).iter() {
        let pcx = Cx { tcx, body: pbody, owner: did };
        let mut stmts = Vec::new();
        for bb in pbody.basic_blocks.iter() {
            for st in &bb.statements {
                if let StatementKind::Assign(b) = &st.kind {
                    let (pl, rv) = &**b;
                    let mut sj = J::obj();
                    sj.put("lhs", pcx.place(pl));
                    sj.put("rv", pcx.rvalue(rv));
                    stmts.push(sj);
                }
            }
        }
        proms.push(J::Arr(stmts));
    }
    if !proms.is_empty() {
        o.put("promoted", J::Arr(proms));
    }
    Some(o)
}

fn emit<'tcx>(tcx: TyCtxt<'tcx>, out_dir: &str) {
    let krate = tcx.crate_name(rustc_hir::def_id::LOCAL_CRATE).as_str().to_string();
    let ctype = tcx
        .crate_types()
        .first()
        .map(|c| format!("{:?}", c).to_lowercase())
        .unwrap_or_else(|| "unknown".into());
    LOCAL_CRATE_NAME.with(|n| *n.borrow_mut() = krate.clone());
    let mut root = J::obj();
    root.put("schema", J::n(1));
    root.put("crate", J::s(&krate));
    root.put("crate_type", J::s(&ctype));
    root.put("nonce", J::s(&std::env::var("XCPV_NONCE").unwrap_or_default()));
    root.put("cfg", J::s(&std::env::var("XCPV_CFG").unwrap_or_default()));
    let feats: Vec<J> = tcx
        .sess
        .config
        .iter()
        .filter(|(k, _)| k.as_str() == "feature")
        .filter_map(|(_, v)| v.map(|s| J::s(s.as_str())))
        .collect();
    root.put("features", J::Arr(feats));

    let mut fns = Vec::new();
    for ldid in tcx.hir_body_owners() {
        if let Some(j) = fn_json(tcx, ldid) {
            fns.push(j);
        }
    }
    root.put("fns", J::Arr(fns));

    // ADT tables of this crate
    let mut adts = Vec::new();
    for id in tcx.hir_free_items() {
        let did = id.owner_id.to_def_id();
        let dk = tcx.def_kind(did);
        if !matches!(dk, DefKind::Struct | DefKind::Enum) {
            continue;
        }
        let adt = tcx.adt_def(did);
        let mut a = J::obj();
        a.put("path", J::s(&defpath(tcx, did)));
        a.put("kind", J::s(if adt.is_enum() { "enum" } else { "struct" }));
        a.put("pub", J::b(tcx.visibility(did).is_public()));
        a.put("exported", J::b(tcx.effective_visibilities(()).is_exported(id.owner_id.def_id)));
        let mut vs = Vec::new();
        for (vi, v) in adt.variants().iter_enumerated() {
            let mut vo = J::obj();
            vo.put("name", J::s(v.name.as_str()));
            if adt.is_enum() {
                vo.put("discr", J::Str(adt.discriminant_for_variant(tcx, vi).val.to_string()));
            }
            let mut fs = Vec::new();
            for f in v.fields.iter() {
                let mut fo = J::obj();
                fo.put("name", J::s(f.name.as_str()));
                fo.put("ty", J::s(&tystr(tcx.type_of(f.did).instantiate_identity().skip_norm_wip())));
                fo.put("pub", J::b(f.vis.is_public()));
                fs.push(fo);
            }
            vo.put("fields", J::Arr(fs));
            vs.push(vo);
        }
        a.put("variants", J::Arr(vs));
        adts.push(a);
    }
    root.put("adts", J::Arr(adts));

    // trait impls of this crate (who is Clone, Drop, ...)
    let mut impls = Vec::new();
    for (tr, list) in tcx.all_local_trait_impls(()).iter() {
        for imp in list {
            let mut io = J::obj();
            io.put("trait", J::s(&defpath(tcx, *tr)));
            let st = tcx.type_of(imp.to_def_id()).instantiate_identity().skip_norm_wip();
            io.put("self_ty", J::s(&tystr(st)));
            io.put("span", span_json(tcx, tcx.def_span(imp.to_def_id())));
            impls.push(io);
        }
    }
    root.put("impls", J::Arr(impls));

    // module visibility (closed-world argument for private modules)
    let mut mods = Vec::new();
    for id in tcx.hir_free_items() {
        let did = id.owner_id.to_def_id();
        if matches!(tcx.def_kind(did), DefKind::Mod) {
            let mut m = J::obj();
            m.put("path", J::s(&defpath(tcx, did)));
            m.put("pub", J::b(tcx.visibility(did).is_public()));
            m.put("exported", J::b(tcx.effective_visibilities(()).is_exported(id.owner_id.def_id)));
            mods.push(m);
        }
    }
    root.put("mods", J::Arr(mods));

    // re-exports (`pub use common::sparse_by_block_count as probably_sparse`): the name an item is *offered*
    // under, next to the path it is defined at -- the rules name API functions by the former
    let mut reex = Vec::new();
    let mut modids: Vec<LocalDefId> = vec![rustc_hir::def_id::CRATE_DEF_ID];
    for id in tcx.hir_free_items() {
        let did = id.owner_id.to_def_id();
        if matches!(tcx.def_kind(did), DefKind::Mod) {
            modids.push(id.owner_id.def_id);
        }
    }
    for m in modids {
        let mpath = if m == rustc_hir::def_id::CRATE_DEF_ID { krate.to_string() } else { defpath(tcx, m.to_def_id()) };
        for ch in tcx.module_children_local(m) {
            if ch.reexport_chain.is_empty() {
                continue;
            }
            if let rustc_hir::def::Res::Def(kind, target) = ch.res {
                if matches!(kind, DefKind::Fn | DefKind::Struct | DefKind::Enum | DefKind::Trait) {
                    let mut o = J::obj();
                    o.put("module", J::s(&mpath));
                    o.put("name", J::s(ch.ident.name.as_str()));
                    o.put("target", J::s(&defpath(tcx, target)));
                    o.put("kind", J::s(&format!("{:?}", kind)));
                    reex.push(o);
                }
            }
        }
    }
    root.put("reexports", J::Arr(reex));

    let text = root.to_string();
    let path = format!("{}/{}-{}.json", out_dir, krate, ctype);
    let tmp = format!("{}.tmp{}", path, std::process::id());
    std::fs::write(&tmp, text).expect("xcpv: cannot write facts");
    std::fs::rename(&tmp, &path).expect("xcpv: cannot rename facts");
}
