"""R-RANGE: block jobs stay inside the range they were cut from (C01, C11).

The parblock driver cuts a byte range (the whole file, or one data extent of a sparse file) into jobs
`copy_file_offset(infd, outfd, bytes, off)`.  A job that starts before `range.start` or ends after `range.end`
copies bytes that belong to a hole (C11: the hole gets allocated) or to another job's range.  The arithmetic that
derives (off, bytes) from the range is evaluated symbolically (rules/poly.py) and

    off >= range.start            off + bytes <= range.end

must follow from the shape of the expressions.  A verdict is given only when the expressions resolve completely
(parameters, configuration, loop indices, min/max, + - * /): otherwise the site is listed as undecided and nothing is
claimed.  *Coverage* (every byte of the range lands in some job) is not decided: it needs a summation argument.
"""
from cfg import op_local, op_place, whole_defs
from engine import Ob, mkkey
import q
import poly
from names import *

OFFSET_SINKS = {"libfs::linux::copy_file_offset": (2, 3), "libfs::fallback::copy_file_offset": (2, 3)}


def _range_params(f):
    """Parameters (or their referents) of type Range<u64>."""
    out = []
    for l in range(1, f.raw.get("argc", 0) + 1):
        ty = f.locals[l]["ty"]
        if "core::ops::range::Range<" in ty:
            out.append(l)
    return out


def _closure_sites(fx, g):
    """[(parent view, block, closure aggregate rvalue)] where closure g is built."""
    import inline
    import views
    root = fx.fns.get(g.root)
    if root is None:
        return []
    cands = [root]
    try:
        v = inline.inlined(fx, root, 3, stop=views.stop_set(fx))
        if v is not None:
            cands = [v]
    except Exception:
        pass
    out = []
    for pv in cands:
        for bi, b in enumerate(pv.blocks):
            if b.get("cleanup"):
                continue
            for s in b["stmts"]:
                rv = s["rv"]
                if rv["k"] == "agg" and rv.get("ak") == "closure" and (rv.get("path") == g.path or rv.get("closure") == g.path
                                                                        or rv.get("adt") == g.path or rv.get("def") == g.path):
                    out.append((pv, bi, rv))
    return out


def job_sites(fx, notes):
    """Yields (closure, sink call, parent view, block of the closure's construction, evaluator, off, bytes, start, end, sink)."""
    for g in fx.fns.values():
        if not g.is_closure or g.crate != "libxcp":
            continue
        for bi, t in g.calls():
            o, p = q.names(t)
            key = p if p in OFFSET_SINKS else (o if o in OFFSET_SINKS else None)
            if key is None:
                continue
            bi_, oi_ = OFFSET_SINKS[key]
            sites = _closure_sites(fx, g)
            if not sites:
                notes.append(dict(site=q.loc_of(t), undecided="the closure's construction site was not found"))
                continue
            for pv, pb, agg in sites:
                rps = _range_params(pv)
                if len(rps) != 1:
                    notes.append(dict(site=q.loc_of(t), undecided="no single Range<u64> parameter in %s" % pv.path))
                    continue
                ps = poly.Sym(pv)
                env = {}
                for i, fo in enumerate(agg["fields"]):
                    env[i] = ps.operand(fo)
                cs = poly.Sym(g, env=env)
                off = cs.operand(t["args"][oi_])
                nbytes = cs.operand(t["args"][bi_])
                # bounds recorded while evaluating the closure's own arithmetic carry over
                ps.lower.update(cs.lower)
                ps.upper.update(cs.upper)
                ps.phi.update(cs.phi)
                ps.phi_guard.update(cs.phi_guard)
                ps.divinfo.update(cs.divinfo)
                ps.weak |= cs.weak
                ps.opaque.update(cs.opaque)
                ps.known.update(cs.known)
                rl = rps[0]
                start = ps.place({"l": rl, "p": [{"f": 0, "n": "start"}]})
                end = ps.place({"l": rl, "p": [{"f": 1, "n": "end"}]})
                yield g, t, pv, pb, ps, off, nbytes, start, end, key


def _by_cases(ps, goal):
    """Second attempt with the path-sensitive prover of p_tile: the goal for the last iteration (idx = hi - 1) and for
    the earlier ones (idx <= hi - 2) separately, alternatives of control-flow-dependent values judged by their guards
    (`bytes = if idx + 1 == blocks { tail } else { bsize }`)."""
    import p_tile
    from poly import Poly
    idxs = sorted(a for a in ps.known if a.startswith("idx@") and p_tile._mentions(ps, goal, a))
    if len(idxs) != 1:
        return False
    I = idxs[0]
    if len(ps.lower.get(I, [])) != 1 or len(ps.upper.get(I, [])) != 1:
        return False
    hi = ps.upper[I][0]
    one = Poly.const(1)
    last = p_tile._deep_subst(ps, goal, I, hi - one, "idx=hi-1")
    return p_tile.Prover(ps, I, idx_value=hi - one).prove(last) and p_tile.Prover(ps, I, idx_upper=hi - one - one).prove(goal)


def jobs_within_range(fx):
    obs = []
    notes = []
    n = 0
    for g, t, pv, pb, ps, off, nbytes, start, end, key in job_sites(fx, notes):
        for what, goal, txt in (("starts-inside", off - start, "off >= range.start"),
                                ("ends-inside", end - off - nbytes, "off + bytes <= range.end")):
            if not ps.decided(goal) or not ps.decided(off) or not ps.decided(nbytes):
                bad = sorted(a for a in (goal.atoms() | off.atoms() | nbytes.atoms()) if a in ps.opaque or a.startswith("self"))
                notes.append(dict(site=q.loc_of(t), goal=txt, undecided="expression does not resolve: %s" % bad[:4],
                                  off=repr(off), bytes=repr(nbytes)))
                continue
            ok = ps.prove_nonneg(goal) or _by_cases(ps, goal)
            if not ok and ps.weak_in(goal):
                notes.append(dict(site=q.loc_of(t), goal=txt, off=repr(off), bytes=repr(nbytes),
                                  undecided="not provable, but a bound of %s did not resolve" % sorted(ps.weak_in(goal))[:3]))
                continue
            n += 1
            obs.append(Ob("R-RANGE", mkkey("R-RANGE", g.root, key.split("::")[-1], 0, what), ok, q.loc_of(t), g.path,
                          "block job %s: off = %s, bytes = %s, range = [%s, %s): %s" % (
                              txt, off, nbytes, start, end,
                              "follows from the arithmetic" if ok else "does NOT follow (%s is not non-negative)" % goal),
                          None if ok else dict(off=repr(off), bytes=repr(nbytes), goal=repr(goal))))
    jobs_within_range.notes = notes
    jobs_within_range.decided = n
    return obs
