"""C04: the error reports of worker threads, pool jobs and finalisation reach the process's exit status.

Failures in a pool job, and failures while a CopyHandle is finalised in Drop, cannot be returned: they are handed to
the StatusUpdater as `StatusUpdate::Error`, and the process's main thread turns the first one it receives into the
exit status (main_consumer_table).  That chain has one more link: the updater the binary gives to the driver must
*deliver* what it is sent.  R-WHO: every value that reaches the `updates` parameter of `CopyDriver::copy` from the
binary crate is an `Arc::new(T)` whose `<T as StatusUpdater>::send` reaches a channel send; an updater whose `send`
discards (the library's NoopUpdater is one, for library users who do not want feedback) silences those failures.
"""
from cfg import op_local, op_place
from engine import Ob, mkkey, anchor_ob
import q
from names import *

ARC_NEW = "alloc::sync::Arc::<T>::new"
CHAN_SEND = ("crossbeam_channel::channel::Sender::<T>::send", "std::sync::mpsc::Sender::<T>::send",
             "std::sync::mpsc::SyncSender::<T>::send", "crossbeam_channel::channel::Sender::<T>::try_send")


def _arc_types(fx, f, opnd, depth=0):
    """Concrete T of the `Arc::new(T)` values that can reach operand `opnd` of function f (through moves, unsizing
    casts and closure captures)."""
    out, unknown = set(), []
    l = op_local(opnd)
    if l is None:
        return out, ["constant operand"]
    from cfg import Prov
    atoms, fields, seen = Prov(f, through_agg=False).origins(l)
    hit = False
    for a in atoms:
        if a.kind == "call":
            if a.what == ARC_NEW:
                ty = a.site.node.get("dest_ty", "")
                inner = ty[len("alloc::sync::Arc<"):-1] if ty.startswith("alloc::sync::Arc<") else ty
                out.add(inner)
                hit = True
            elif a.what in ("core::clone::Clone::clone",) and a.site.node["args"]:
                o2, u2 = _arc_types(fx, f, a.site.node["args"][0], depth + 1) if depth < 6 else (set(), ["depth"])
                out |= o2
                unknown += u2
                hit = True
            elif (a.site.node.get("fn") or {}).get("path") in fx.fns and depth < 6:
                # a workspace constructor (`ChannelUpdater::pair()` returning the Arc and the receiver): what it returns
                g = fx.fns[a.site.node["fn"]["path"]]
                o2, u2 = _returned_arcs(fx, g, depth + 1)
                out |= o2
                unknown += u2
                hit = True
            else:
                unknown.append("result of %s" % a.what)
        elif a.kind == "arg":
            if f.is_closure and a.what == 1 and depth < 6:
                idxs = [fl[1] for fl in fields if fl[0] is None and isinstance(fl[1], int)]
                parent = fx.fns.get(f.root)
                built = []
                if parent is not None:
                    for b in parent.blocks:
                        if b.get("cleanup"):
                            continue
                        for s in b["stmts"]:
                            rv = s["rv"]
                            if rv["k"] == "agg" and rv.get("ak") == "closure" and rv.get("closure") == f.path:
                                built.append(rv)
                if not built or not idxs:
                    unknown.append("captured by %s" % f.path)
                for rv in built:
                    for i in idxs:
                        if i < len(rv["fields"]):
                            o2, u2 = _arc_types(fx, parent, rv["fields"][i], depth + 1)
                            out |= o2
                            unknown += u2
                            hit = True
            else:
                unknown.append("parameter %s of %s" % (a.what, f.path))
    if not hit and not unknown:
        unknown.append("no origin found")
    return out, unknown


def _returned_arcs(fx, g, depth):
    from cfg import Prov
    atoms, fields, seen = Prov(g, through_agg=True).origins(0)
    out, unknown = set(), []
    for a in atoms:
        if a.kind != "call":
            continue
        if a.what == ARC_NEW:
            ty = a.site.node.get("dest_ty", "")
            out.add(ty[len("alloc::sync::Arc<"):-1] if ty.startswith("alloc::sync::Arc<") else ty)
        elif (a.site.node.get("fn") or {}).get("path") in fx.fns and depth < 6 and \
                "StatusUpdater" in (a.site.node.get("dest_ty") or ""):
            o2, u2 = _returned_arcs(fx, fx.fns[a.site.node["fn"]["path"]], depth + 1)
            out |= o2
            unknown += u2
    if not out:
        unknown.append("%s returns no Arc::new(..) value" % g.path)
    return out, unknown


def _runs_a_driver(fx, cg, p):
    """A workspace function from which a driver's copy() is reached (static dispatch through an enum of drivers,
    an inherent `copy()` that delegates)."""
    if p not in fx.fns or fx.fns[p].crate != "libxcp":
        return False
    r = cg.reach(p)
    return DRIVER_COPY in r or any(x.endswith(" as libxcp::drivers::CopyDriver>::copy") for x in r) or \
        p.endswith(" as libxcp::drivers::CopyDriver>::copy")


def errors_delivered(fx):
    obs = []
    cg = q.callgraph(fx)
    n = 0
    for f in fx.fns.values():
        if f.crate != "xcp" or f.from_expansion and not f.is_closure:
            continue
        for bi, t in f.calls():
            o, p = q.names(t)
            if o != DRIVER_COPY and not _runs_a_driver(fx, cg, p):
                continue
            # the updater is the argument of type Arc<dyn StatusUpdater> (whatever else copy() takes)
            ai = [i for i, ty in enumerate(t.get("arg_tys") or []) if "StatusUpdater" in ty and "Arc<" in ty]
            if not ai:
                continue
            tys, unknown = _arc_types(fx, f, t["args"][ai[-1]])
            bad = []
            for ty in sorted(tys):
                impl = "<%s as %s>::send" % (ty, "libxcp::feedback::StatusUpdater")
                g = fx.fns.get(impl)
                if g is None:
                    cands = [x for x in fx.fns if x.endswith(" as libxcp::feedback::StatusUpdater>::send") and x.startswith("<" + ty)]
                    g = fx.fns.get(cands[0]) if len(cands) == 1 else None
                if g is None:
                    bad.append("%s: no StatusUpdater::send found" % ty)
                    continue
                if not any(c in cg.reach(g.path) for c in CHAN_SEND):
                    bad.append("%s::send delivers nothing (no channel send is reachable from it)" % ty.split("::")[-1])
            ok = bool(tys) and not bad and not unknown
            n += 1
            obs.append(Ob("R-WHO", mkkey("R-WHO", f.path, DRIVER_COPY, n - 1, "updater-delivers"), ok, q.loc_of(t), f.path,
                          "the updater given to the driver is %s: %s" % (
                              sorted(x.split("::")[-1] for x in tys) or "?",
                              "it forwards what it is sent to a channel" if ok else "; ".join(bad + unknown)),
                          None if ok else dict(types=sorted(tys), problems=bad + unknown)))
    if n == 0:
        obs.append(anchor_ob("R-WHO", "the binary calls CopyDriver::copy"))
    return obs
