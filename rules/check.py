"""verif check <Cxx> [--tier quick|thorough]"""
import os
import sys
import time
import traceback

import facts
import engine
import props


def main(argv):
    if not argv:
        print("usage: verif check <Cxx> [--tier quick|thorough]")
        return 2
    prop = argv[0]
    tier = os.environ.get("VERIF_TIER", "quick")
    if "--tier" in argv:
        tier = argv[argv.index("--tier") + 1]
    if tier not in ("quick", "thorough"):
        tier = "quick"
    try:
        seed = int(os.environ.get("VERIF_SEED", "0"))
    except ValueError:
        seed = 0
    if prop not in props.PROPS:
        print("unknown or unclaimed property", prop)
        return 2
    spec = props.PROPS[prop]
    rep = engine.Report(prop, tier, seed)
    selftest_failure = None
    try:
        ctx = props.Ctx(tier, rep)
        spec["run"](ctx)
        ctx.enforce_floors(spec.get("floors", {}))
        ctx.run_controls(spec.get("controls", []))
        if tier == "thorough":
            try:
                ctx.run_thorough(spec)
            except Exception as e:
                import thorough
                if not isinstance(e, thorough.ThoroughFailure):
                    raise
                # the self-test concerns the checker, the verdict concerns /repo: a violation found by the rules
                # is reported whatever the self-test says (on a changed tree some self-test variants go stale)
                selftest_failure = str(e)
    except facts.ExtractionError as e:
        print("ERROR: cannot extract facts from the current tree: %s" % e)
        return 2
    except props.ControlFailure as e:
        print("ERROR: checker self-control failed (machinery broken, no verdict): %s" % e)
        return 2
    except Exception as e:
        import thorough
        if isinstance(e, thorough.ThoroughFailure):
            print("ERROR: thorough-tier checker self-test failed (machinery broken, no verdict): %s" % e)
            return 2
        raise
    rep.configs = sorted(ctx.loaded)
    rep.stats = ctx.stats()
    lines, nviol, ev = rep.finish(spec["explanation"], spec["assumptions"], spec["rule"])
    for l in lines:
        print(l)
    cov = ev["coverage"]
    print("%s [%s] %d obligations, %d discharged, %d allowed, %d known, %d violations; cfgs=%s; %.1fs" % (
        prop, tier, cov["obligations"], cov["discharged"], len(cov["allow_list_used"]),
        len(cov["known_findings_hit"]), nviol, ",".join(rep.configs), ev["wall_s"]))
    if selftest_failure:
        print("ERROR: thorough-tier checker self-test failed (%s): %s" % (
            "the violations above stand on their own" if nviol else "machinery broken, no verdict", selftest_failure))
        return 1 if nviol else 2
    return 1 if nviol else 0
