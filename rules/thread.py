"""Variant threading of inlined views (node splitting on the Result/Option variant of inlined return values).

After inlining, a helper's `return Err(..)` and its `Ok(..)` exit both flow into one return block, and the caller's
`?` (or `match`) then branches on the discriminant: a path-insensitive reachability sees the impossible path
"helper failed -> caller continues".  Every gate, ordering and must-fail rule is a reachability/dominance
question, so instead of teaching each of them about variants the view is rewritten: blocks between the point where
an inlined return value receives a known variant and the switch that consumes it are duplicated per variant, and
the consuming switch keeps only the edge that variant takes.

Facts tracked (per path): local -> variant name, for
  * `L = Adt::Variant{..}`           where L is the return place of an inlined callee (`inlined_rets`)
  * `X = move/copy L`                fact moves with the value
  * `C = Try::branch(move L)`        Ok/Some -> Continue, Err/None -> Break
  * `L = FromResidual::from_residual(..)`  (the failing side of a `?` inside the helper) Err / None
  * `D = discriminant(P)`            D knows the discriminant value when P's variant is known
  * `switch D`                       only the matching target is kept; the facts for D and P are consumed
A fact dies when its local is overwritten, dropped, mutably borrowed or consumed by the switch, so copies re-merge
right after the consuming switch and the duplication stays local.  If the product grows past a bound the view is
returned unchanged (the rules then over-approximate reachability: an alarm, never a silent pass)."""
import copy

import facts

TRY_BRANCH = "core::ops::try_trait::Try::branch"
DISCR = {  # variant -> discriminant value for the std enums involved
    "Ok": 0, "Err": 1, "None": 0, "Some": 1, "Continue": 0, "Break": 1,
}
BRANCH = {"Ok": "Continue", "Some": "Continue", "Err": "Break", "None": "Break"}
TRACK_ADTS = ("core::result::Result", "core::option::Option", "core::ops::control_flow::ControlFlow")


def _op_place(o):
    return o.get("mv") or o.get("cp")


def _outer(f):
    return f[0] if isinstance(f, tuple) and f and f[0] not in ("discr", "bool") else None


class _Aux:
    """Per-function lookups for comparisons of enum values through references."""

    def __init__(self, fn):
        import cfg as _cfg
        self.refs = {}
        self.adts = getattr(getattr(fn, "fx", None), "adts", {}) or {}
        for l in range(len(fn.locals)):
            ds = _cfg.whole_defs(fn, l)
            if len(ds) == 1 and not ds[0].is_term:
                rv = ds[0].node["rv"]
                if rv["k"] == "ref" and not rv["pl"].get("p"):
                    self.refs[l] = ("local", rv["pl"]["l"])
                elif rv["k"] == "ref" and all(e_ == "deref" for e_ in rv["pl"]["p"]):
                    self.refs[l] = ("alias", rv["pl"]["l"])      # a reborrow `&*r`
                elif rv["k"] == "use" and "c" in rv["op"] and "promoted" in rv["op"]["c"]:
                    self.refs[l] = ("prom", rv["op"]["c"]["promoted"])
                elif rv["k"] == "use" and not (_op_place(rv["op"]) or {"p": 1}).get("p"):
                    self.refs[l] = ("alias", _op_place(rv["op"])["l"])
        self.proms = fn.raw.get("promoted", [])

    def pointee(self, l, depth=0):
        """The local a reference local points to (through reborrows and moves of the reference), if unique."""
        r = self.refs.get(l)
        if r is None or depth > 6:
            return None
        if r[0] == "local":
            return r[1]
        if r[0] == "alias":
            return self.pointee(r[1], depth + 1)
        return None

    def fieldless(self, adt):
        a = self.adts.get(adt)
        return bool(a) and all(not v.get("fields") for v in a.get("variants", []))

    def variant_of(self, fn, fs, operand, depth=0):
        """(adt, variant) of the enum value the operand refers to, if known on this path."""
        if depth > 5:
            return None
        c = operand.get("c")
        if c is not None and "promoted" in c:
            return self._prom(c["promoted"])
        p = _op_place(operand)
        if p is None or p.get("p"):
            return None
        r = self.refs.get(p["l"])
        if r is None:
            return None
        if r[0] == "prom":
            return self._prom(r[1])
        if r[0] == "alias":
            return self.variant_of(fn, fs, {"cp": {"l": r[1]}}, depth + 1)
        f_ = fs.get(r[1])
        if isinstance(f_, tuple) and f_ and f_[0] not in ("discr", "bool") and len(f_) > 2:
            return (f_[2], f_[0])
        return None

    def _prom(self, idx):
        if idx >= len(self.proms):
            return None
        for s_ in self.proms[idx]:
            rv = s_["rv"]
            if rv["k"] == "agg" and rv.get("ak") == "adt" and rv.get("variant") is not None:
                return (rv.get("adt"), rv["variant"])
        return None


def _transfer(fn, b, fs, tracked, root, enums=frozenset(), resolved=None, edge_facts=None, aux=None):
    """Apply block b's statements and terminator to the fact map fs; returns (facts-after, successor list).
    A fact is (variant, inner fact or None): `Ok(Some(x))` is ("Ok", ("Some", None))."""
    fs = dict(fs)
    in_callee = b.get("origin", root) != root
    for s in b["stmts"]:
        lhs = s["lhs"]
        rv = s["rv"]
        k = rv["k"]
        new = None
        if not lhs.get("p"):
            if k == "agg" and rv.get("ak") == "adt" and rv.get("variant") is not None and \
                    (rv.get("adt") in TRACK_ADTS or rv.get("adt") in enums):
                inner = None
                if len(rv["fields"]) == 1:
                    p = _op_place(rv["fields"][0])
                    if p is not None and not p.get("p") and isinstance(fs.get(p["l"]), tuple) and fs[p["l"]][0] != "discr":
                        inner = fs[p["l"]]      # a known variant, or a known bool (`Ok(false)`)
                    elif p is None and "c" in rv["fields"][0] and rv["fields"][0]["c"].get("ty") == "bool":
                        inner = ("bool", bool(rv["fields"][0]["c"].get("v")))
                        if "mv" in rv["fields"][0]:
                            fs.pop(p["l"], None)
                new = (rv.get("variant"), inner) if rv.get("adt") in TRACK_ADTS else (rv.get("variant"), inner, rv.get("adt"))
            elif k == "use":
                p = _op_place(rv["op"])
                if p is not None and p["l"] in fs:
                    pr = p.get("p") or []
                    if not pr:
                        new = fs[p["l"]]
                        if "mv" in rv["op"]:
                            fs.pop(p["l"], None)
                    elif len(pr) == 2 and isinstance(pr[0], dict) and "dc" in pr[0] and isinstance(pr[1], dict) \
                            and pr[1].get("f") == 0 and _outer(fs[p["l"]]) == pr[0]["dc"]:
                        # payload of a known variant: `x = move (_c as Continue).0`
                        new = fs[p["l"]][1]
            elif k == "discr":
                p = rv["pl"]
                if p.get("p") == ["deref"] and aux is not None:
                    # `match *self` on a reference to a value whose variant is known on this path
                    tgt_ = aux.pointee(p["l"])
                    if tgt_ is not None:
                        p = {"l": tgt_}
                ov = _outer(fs.get(p["l"])) if not p.get("p") else None
                if ov is not None:
                    val = None
                    for vv in rv.get("variants", []):
                        if vv["name"] == ov:
                            val = int(vv["val"])
                    if val is None and ov in DISCR and rv.get("adt") in TRACK_ADTS:
                        val = DISCR[ov]
                    if val is not None:
                        new = ("discr", val, p["l"])
            elif k == "use" and False:
                pass
            if new is None and k == "use" and "c" in rv["op"] and rv["op"]["c"].get("ty") == "bool":
                new = ("bool", bool(rv["op"]["c"].get("v")))
            elif new is None and k == "un" and rv.get("op") == "Not":
                p = _op_place(rv["a"])
                if p is not None and not p.get("p") and isinstance(fs.get(p["l"]), tuple) and fs[p["l"]][0] == "bool":
                    new = ("bool", not fs[p["l"]][1])
            if new is not None:
                fs[lhs["l"]] = new
            else:
                fs.pop(lhs["l"], None)
        else:
            # a write into part of a tracked value: forget it
            if not (lhs["p"] and lhs["p"][0] == "deref"):
                fs.pop(lhs["l"], None)
        if k in ("ref", "rawptr") and rv.get("mut") and not rv["pl"].get("p"):
            fs.pop(rv["pl"]["l"], None)
    t = b["term"]
    k = t["k"]
    if k in ("goto", "assert"):
        return fs, [t["target"]]
    if k == "drop":
        if not t["pl"].get("p"):
            fs.pop(t["pl"]["l"], None)
        return fs, [t["target"]]
    if k == "call":
        d = t["dest"]
        new = None
        f = t.get("fn") or {}
        if f.get("orig") == TRY_BRANCH and t["args"]:
            p = _op_place(t["args"][0])
            if p is not None and not p.get("p") and _outer(fs.get(p["l"])) in BRANCH:
                new = (BRANCH[_outer(fs[p["l"]])], fs[p["l"]][1])
        if f.get("orig") in ("core::cmp::PartialEq::eq", "core::cmp::PartialEq::ne") and len(t["args"]) == 2 and aux is not None:
            # `plan == CopyPlan::Sparse` on a value whose variant is known on this path (derived PartialEq)
            vs = [aux.variant_of(fn, fs, a_) for a_ in t["args"]]
            if vs[0] is not None and vs[1] is not None and vs[0][0] == vs[1][0]:
                same = vs[0][1] == vs[1][1]
                if not same or aux.fieldless(vs[0][0]):
                    new = ("bool", same if f["orig"].endswith("::eq") else not same)
        if f.get("orig") == "core::ops::try_trait::FromResidual::from_residual" and not d.get("p"):
            ty = fn.locals[d["l"]]["ty"]
            if ty.startswith("core::result::Result<"):
                new = ("Err", None)
            elif ty.startswith("core::option::Option<"):
                new = ("None", None)
        for a in t["args"]:
            p = _op_place(a)
            if p is not None and "mv" in a and not p.get("p"):
                fs.pop(p["l"], None)
        if not d.get("p"):
            if new is not None:
                fs[d["l"]] = new
            else:
                fs.pop(d["l"], None)
        return fs, ([t["target"]] if t.get("target") is not None else [])
    if k == "switch":
        p = _op_place(t["op"])
        succ = [tb for _, tb in t["targets"]] + [t["otherwise"]]
        if p is not None and not p.get("p"):
            f_ = fs.get(p["l"])
            if isinstance(f_, tuple) and f_[0] == "bool" and t.get("op_ty") == "bool":
                explicit = {int(v): tb for v, tb in t["targets"]}
                if f_[1]:
                    tgt = t["otherwise"] if 0 in explicit else explicit.get(1, t["otherwise"])
                else:
                    tgt = explicit.get(0, t["otherwise"])
                succ = [tgt]
                if resolved is not None:
                    resolved.append((p["l"], 1 if f_[1] else 0, "bool"))
                if "mv" in t["op"]:
                    fs.pop(p["l"], None)
            elif isinstance(f_, tuple) and f_[0] == "discr":
                val = f_[1]
                tgt = None
                for v, tb in t["targets"]:
                    if int(v) == val:
                        tgt = tb
                if tgt is None:
                    tgt = t["otherwise"]
                succ = [tgt]
                if resolved is not None:
                    resolved.append((p["l"], val, "discr"))
                fs.pop(p["l"], None)
                # (the matched value keeps its fact: it may be moved on and matched again -- `Err(e) => return
                # Err(e)` written as `other => other`; facts of dead locals are dropped by the liveness filter)
            elif edge_facts is not None:
                # an ordinary match: along each arm the scrutinee's variant is known from here on (a later
                # re-match of the same value, e.g. `other => other.map_err(..)`, then takes one side only)
                for s_ in b["stmts"]:
                    rv_ = s_["rv"]
                    if rv_["k"] == "discr" and s_["lhs"]["l"] == p["l"] and not s_["lhs"].get("p") and \
                            not rv_["pl"].get("p") and rv_.get("variants"):
                        names = {int(v_["val"]): v_["name"] for v_ in rv_["variants"]}
                        by_t = {}
                        for v_, tb in t["targets"]:
                            by_t.setdefault(tb, []).append(int(v_))
                        listed = set(int(v_) for v_, _tb in t["targets"])
                        rest = [v_ for v_ in names if v_ not in listed]
                        if len(rest) == 1 and t["otherwise"] not in by_t:
                            by_t[t["otherwise"]] = rest
                        for tb, vals in by_t.items():
                            if len(vals) == 1 and vals[0] in names:
                                edge_facts[tb] = {rv_["pl"]["l"]: (names[vals[0]], None) if rv_.get("adt") in TRACK_ADTS
                                                  else (names[vals[0]], None, rv_.get("adt"))}
        return fs, succ
    return fs, []


def _relevant_liveness(fn, aux=None):
    """live_in[b]: locals whose variant may still be inspected (discriminant, `?`, move/copy of the whole value or
    of its payload, wrapping into another tracked enum, switch) on some path from the start of b before they are
    overwritten.  Facts about other locals are useless and dropped, so product states merge early."""
    blocks = fn.blocks
    n = len(blocks)
    gen = [set() for _ in range(n)]
    kill = [set() for _ in range(n)]
    succ = [[] for _ in range(n)]
    for i, b in enumerate(blocks):
        if b.get("cleanup"):
            continue
        g, kl = gen[i], kill[i]

        def use(l):
            if l not in kl:
                g.add(l)
        for s in b["stmts"]:
            rv = s["rv"]
            k = rv["k"]
            if k == "use":
                p = _op_place(rv["op"])
                if p is not None:
                    use(p["l"])
            elif k == "discr":
                use(rv["pl"]["l"])
                if rv["pl"].get("p") == ["deref"] and aux is not None:
                    tgt_ = aux.pointee(rv["pl"]["l"])
                    if tgt_ is not None:
                        use(tgt_)
            elif k == "ref":
                if not rv["pl"].get("p"):
                    use(rv["pl"]["l"])      # `&plan` handed to a derived `==`
            elif k == "un":
                p = _op_place(rv["a"])
                if p is not None:
                    use(p["l"])
            elif k == "agg":
                for o in rv["fields"]:
                    p = _op_place(o)
                    if p is not None and not p.get("p"):
                        use(p["l"])
            if not s["lhs"].get("p"):
                kl.add(s["lhs"]["l"])
        t = b["term"]
        k = t["k"]
        if k == "call":
            if (t.get("fn") or {}).get("orig") == TRY_BRANCH and t["args"]:
                p = _op_place(t["args"][0])
                if p is not None:
                    use(p["l"])
            if not t["dest"].get("p"):
                kl.add(t["dest"]["l"])
            if t.get("target") is not None:
                succ[i] = [t["target"]]
        elif k == "switch":
            p = _op_place(t["op"])
            if p is not None:
                use(p["l"])
            succ[i] = [tb for _, tb in t["targets"]] + [t["otherwise"]]
        elif k in ("goto", "assert", "drop"):
            succ[i] = [t["target"]]
    live_in = [set(g) for g in gen]
    changed = True
    while changed:
        changed = False
        for i in range(n - 1, -1, -1):
            out = set()
            for s_ in succ[i]:
                out |= live_in[s_]
            new = gen[i] | (out - kill[i])
            if new != live_in[i]:
                live_in[i] = new
                changed = True
    return live_in


def _drop_elab(fn, t):
    """A switch whose every target only clears drop flags / drops / jumps: drop elaboration, not a `match`."""
    for tb in set([b for _, b in t["targets"]] + [t["otherwise"]]):
        b = fn.blocks[tb]
        for s_ in b["stmts"]:
            rv = s_["rv"]
            if not (rv["k"] == "use" and "c" in rv["op"] and rv["op"]["c"].get("ty") == "bool"):
                return False
        if b["term"]["k"] not in ("drop", "goto", "return", "resume", "unreachable"):
            return False
    return True


def _retarget(t, mapping):
    """Copy of terminator t with successor blocks renamed through mapping (old -> new).  A switch whose variant
    is known on this path keeps a single successor and becomes a goto."""
    nt = dict(t)
    nt.pop("unwind", None)      # cleanup blocks are not part of a view
    k = t["k"]
    if k in ("goto", "assert", "drop"):
        nt["target"] = mapping[t["target"]]
    elif k == "call":
        if t.get("target") is not None:
            nt["target"] = mapping[t["target"]]
    elif k == "switch":
        all_t = [tb for _, tb in t["targets"]] + [t["otherwise"]]
        if all(tb in mapping for tb in all_t):
            nt["targets"] = [[v, mapping[tb]] for v, tb in t["targets"]]
            nt["otherwise"] = mapping[t["otherwise"]]
        else:
            (only,) = set(mapping.values())
            nt = {"k": "goto", "target": only, "span": t["span"], "threaded_switch": True}
    return nt


def threaded(fn, limit_factor=4):
    tracked = set(fn.raw.get("inlined_rets", []))
    blocks = fn.blocks
    nb = len(blocks)
    root = fn.path
    aux = _Aux(fn)
    live = _relevant_liveness(fn, aux)
    fx_ = getattr(fn, "fx", None)
    enums = frozenset(p_ for p_, a_ in (fx_.adts.items() if fx_ is not None else []) if a_.get("kind") == "enum")
    limit = limit_factor * nb + 400
    # explore the product
    start = (0, frozenset())
    index = {start: 0}
    order = [start]
    succs = {}
    resolved_at = {}
    work = [start]
    while work:
        st = work.pop()
        bi, fs = st
        b = blocks[bi]
        if b.get("cleanup"):
            succs[st] = []
            continue
        rs = []
        ef = {}
        out, ss = _transfer(fn, b, dict(fs), tracked, root, enums, rs, ef, aux)
        if rs:
            resolved_at[st] = rs[0]
        res = []
        for s in ss:
            if blocks[s].get("cleanup"):
                continue
            o2 = out
            if s in ef:
                o2 = dict(out)
                for l_, f_ in ef[s].items():
                    if l_ not in o2:
                        o2[l_] = f_
            ns = (s, frozenset((l, f_) for l, f_ in o2.items() if l in live[s]))
            if ns not in index:
                index[ns] = len(order)
                order.append(ns)
                work.append(ns)
                if len(order) > limit:
                    return fn
            res.append((s, ns))
        succs[st] = res
    new_blocks = []
    for st in order:
        bi, fs = st
        b = blocks[bi]
        mapping = {}
        for s, ns in succs[st]:
            mapping[s] = index[ns]
        nbk = {"stmts": b["stmts"], "origin": b.get("origin", fn.path), "src_block": bi}
        for extra in ("inline_entry", "inline_return"):
            if extra in b:
                nbk[extra] = b[extra]
        t = b["term"]
        try:
            nbk["term"] = _retarget(t, mapping)
        except (KeyError, ValueError):
            return fn
        if st in resolved_at and nbk["term"].get("threaded_switch"):
            l_, v_, kind_ = resolved_at[st]
            nbk["term"]["threaded_switch"] = {"local": l_, "val": v_, "kind": kind_, "drop_elab": _drop_elab(fn, t)}
        new_blocks.append(nbk)
    raw = dict(fn.raw)
    raw["blocks"] = new_blocks
    out = facts.Fn(raw, fn.crate)
    out.inlined_from = getattr(fn, "inlined_from", None)
    out.n_own = 0
    out.fx = fn.fx
    return out
