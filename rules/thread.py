"""Variant threading of inlined views (node splitting on the Result/Option variant of inlined return values).

After inlining, a helper's `return Err(..)` and its `Ok(..)` exit both flow into one return block, and the caller's
`?` (or `match`) then branches on the discriminant: a path-insensitive reachability sees the impossible path
"helper failed -> caller continues".  Every gate, ordering and must-fail rule is a reachability/dominance
question, so instead of teaching each of them about variants the view is rewritten: blocks between the point where
an inlined return value receives a known variant and the switch that consumes it are duplicated per variant, and
the consuming switch keeps only the edge that variant takes.

Facts tracked (per path): local -> variant name, for
  * `L = Adt::Variant{..}`           where L is the return place of an inlined callee (`inlined_rets`)
  * `X = move/copy L`                fact moves with the value
  * `C = Try::branch(move L)`        Ok/Some -> Continue, Err/None -> Break
  * `L = FromResidual::from_residual(..)`  (the failing side of a `?` inside the helper) Err / None
  * `D = discriminant(P)`            D knows the discriminant value when P's variant is known
  * `switch D`                       only the matching target is kept; the facts for D and P are consumed
A fact dies when its local is overwritten, dropped, mutably borrowed or consumed by the switch, so copies re-merge
right after the consuming switch and the duplication stays local.  If the product grows past a bound the view is
returned unchanged (the rules then over-approximate reachability: an alarm, never a silent pass)."""
import copy

import facts

TRY_BRANCH = "core::ops::try_trait::Try::branch"
DISCR = {  # variant -> discriminant value for the std enums involved
    "Ok": 0, "Err": 1, "None": 0, "Some": 1, "Continue": 0, "Break": 1,
}
BRANCH = {"Ok": "Continue", "Some": "Continue", "Err": "Break", "None": "Break"}
TRACK_ADTS = ("core::result::Result", "core::option::Option", "core::ops::control_flow::ControlFlow")


def _op_place(o):
    return o.get("mv") or o.get("cp")


def _transfer(fn, b, fs, tracked):
    """Apply block b's statements and terminator to the fact map fs; returns (facts-after, successor list)."""
    fs = dict(fs)
    for s in b["stmts"]:
        lhs = s["lhs"]
        rv = s["rv"]
        k = rv["k"]
        new = None
        if not lhs.get("p"):
            if k == "agg" and rv.get("ak") == "adt" and rv.get("adt") in TRACK_ADTS and lhs["l"] in tracked:
                new = rv.get("variant")
            elif k == "use":
                p = _op_place(rv["op"])
                if p is not None and not p.get("p") and p["l"] in fs:
                    new = fs[p["l"]]
                    if "mv" in rv["op"]:
                        fs.pop(p["l"], None)
            elif k == "discr":
                p = rv["pl"]
                if not p.get("p") and isinstance(fs.get(p["l"]), str) and fs[p["l"]] in DISCR:
                    new = ("discr", DISCR[fs[p["l"]]], p["l"])
            if new is not None:
                fs[lhs["l"]] = new
            else:
                fs.pop(lhs["l"], None)
        else:
            # a write into part of a tracked value: forget it
            if not (lhs["p"] and lhs["p"][0] == "deref"):
                fs.pop(lhs["l"], None)
        if k in ("ref", "rawptr") and rv.get("mut") and not rv["pl"].get("p"):
            fs.pop(rv["pl"]["l"], None)
    t = b["term"]
    k = t["k"]
    if k in ("goto", "assert"):
        return fs, [t["target"]]
    if k == "drop":
        if not t["pl"].get("p"):
            fs.pop(t["pl"]["l"], None)
        return fs, [t["target"]]
    if k == "call":
        d = t["dest"]
        new = None
        f = t.get("fn") or {}
        if f.get("orig") == TRY_BRANCH and t["args"]:
            p = _op_place(t["args"][0])
            if p is not None and not p.get("p") and isinstance(fs.get(p["l"]), str) and fs[p["l"]] in BRANCH:
                new = BRANCH[fs[p["l"]]]
        if f.get("orig") == "core::ops::try_trait::FromResidual::from_residual" and not d.get("p") and d["l"] in tracked:
            ty = fn.locals[d["l"]]["ty"]
            if ty.startswith("core::result::Result<"):
                new = "Err"
            elif ty.startswith("core::option::Option<"):
                new = "None"
        for a in t["args"]:
            p = _op_place(a)
            if p is not None and "mv" in a and not p.get("p"):
                fs.pop(p["l"], None)
        if not d.get("p"):
            if new is not None:
                fs[d["l"]] = new
            else:
                fs.pop(d["l"], None)
        return fs, ([t["target"]] if t.get("target") is not None else [])
    if k == "switch":
        p = _op_place(t["op"])
        succ = [tb for _, tb in t["targets"]] + [t["otherwise"]]
        if p is not None and not p.get("p"):
            f_ = fs.get(p["l"])
            if isinstance(f_, tuple) and f_[0] == "discr":
                val = f_[1]
                tgt = None
                for v, tb in t["targets"]:
                    if int(v) == val:
                        tgt = tb
                if tgt is None:
                    tgt = t["otherwise"]
                succ = [tgt]
                fs.pop(p["l"], None)
                fs.pop(f_[2], None)
        return fs, succ
    return fs, []


def _retarget(t, mapping):
    """Copy of terminator t with successor blocks renamed through mapping (old -> new).  A switch whose variant
    is known on this path keeps a single successor and becomes a goto."""
    nt = dict(t)
    nt.pop("unwind", None)      # cleanup blocks are not part of a view
    k = t["k"]
    if k in ("goto", "assert", "drop"):
        nt["target"] = mapping[t["target"]]
    elif k == "call":
        if t.get("target") is not None:
            nt["target"] = mapping[t["target"]]
    elif k == "switch":
        all_t = [tb for _, tb in t["targets"]] + [t["otherwise"]]
        if all(tb in mapping for tb in all_t):
            nt["targets"] = [[v, mapping[tb]] for v, tb in t["targets"]]
            nt["otherwise"] = mapping[t["otherwise"]]
        else:
            (only,) = set(mapping.values())
            nt = {"k": "goto", "target": only, "span": t["span"], "threaded_switch": True}
    return nt


def threaded(fn, limit_factor=4):
    tracked = set(fn.raw.get("inlined_rets", []))
    if not tracked:
        return fn
    blocks = fn.blocks
    nb = len(blocks)
    limit = limit_factor * nb + 400
    # explore the product
    start = (0, frozenset())
    index = {start: 0}
    order = [start]
    succs = {}
    work = [start]
    while work:
        st = work.pop()
        bi, fs = st
        b = blocks[bi]
        if b.get("cleanup"):
            succs[st] = []
            continue
        out, ss = _transfer(fn, b, dict(fs), tracked)
        key = frozenset(out.items())
        res = []
        for s in ss:
            if blocks[s].get("cleanup"):
                continue
            ns = (s, key)
            if ns not in index:
                index[ns] = len(order)
                order.append(ns)
                work.append(ns)
                if len(order) > limit:
                    return fn
            res.append((s, ns))
        succs[st] = res
    new_blocks = []
    for st in order:
        bi, fs = st
        b = blocks[bi]
        mapping = {}
        for s, ns in succs[st]:
            mapping[s] = index[ns]
        nbk = {"stmts": b["stmts"], "origin": b.get("origin", fn.path), "src_block": bi}
        for extra in ("inline_entry", "inline_return"):
            if extra in b:
                nbk[extra] = b[extra]
        t = b["term"]
        try:
            nbk["term"] = _retarget(t, mapping)
        except (KeyError, ValueError):
            return fn
        new_blocks.append(nbk)
    raw = dict(fn.raw)
    raw["blocks"] = new_blocks
    out = facts.Fn(raw, fn.crate)
    out.inlined_from = getattr(fn, "inlined_from", None)
    out.n_own = 0
    out.fx = fn.fx
    return out
