"""R-THREAD: thread, channel and pool protocol (C06, C07, C20, C12(c))."""
from cfg import cfg_of, defuse, Prov, op_local, op_place, callee_orig, callee_path
from engine import Ob, mkkey, anchor_ob
import q
import r_order as ro
import r_err
from names import *
from p_gate import edge_region

OP_T = "libxcp::operations::Operation"
_OPW = {"types": (OP_T,)}


def _op_types(fx):
    """The work item of the walker->worker queue: Operation itself, or a workspace struct that carries one
    (`Job { seq, op }`)."""
    out = [OP_T]
    for p_, a_ in getattr(fx, "adts", {}).items():
        if a_.get("kind") == "struct" and p_.split("::")[0] in ("libxcp", "xcp"):
            for v_ in a_.get("variants", []):
                if any((fl_.get("ty") or "") == OP_T for fl_ in v_.get("fields", [])):
                    out.append(p_)
    _OPW["types"] = tuple(out)
    return _OPW["types"]


def _has_op(ty):
    return any(w in ty for w in _OPW["types"])
UPD_T = "libxcp::feedback::StatusUpdate"
DYN_UPD = "dyn libxcp::feedback::StatusUpdater"
VEC_PUSH = "alloc::vec::Vec::<T, A>::push"
INTO_ITER = "core::iter::traits::collect::IntoIterator::into_iter"
NEXT = "core::iter::traits::iterator::Iterator::next"


def _pointees(du, ptr):
    """Locals a pointer/reference local was (transitively) derived from."""
    back, seenb = [ptr], set()
    while back:
        x = back.pop()
        if x in seenb:
            continue
        seenb.add(x)
        for s3, _w3 in du.defs.get(x, []):
            if s3.is_term:
                if callee_orig(s3.node) and s3.node["args"] and (
                        "as_mut_ptr" in callee_orig(s3.node) or "deref" in callee_orig(s3.node).lower()):
                    y = op_local(s3.node["args"][0])
                    if y is not None:
                        back.append(y)
                continue
            r3 = s3.node["rv"]
            y = None
            if r3["k"] in ("ref", "rawptr"):
                y = r3["pl"]["l"]
            elif r3["k"] in ("use", "cast"):
                y = op_local(r3["op"])
            if y is not None:
                back.append(y)
    return seenb


def taint_from(fn, seeds, through_bin=False):
    """Forward may-flow of a value through moves, refs, aggregates, payload reads, collections
    (Vec::push / into_iter / next) -- enough to follow a JoinHandle or a CopyHandle."""
    du = defuse(fn)
    t = set(seeds)
    via_collection = False
    work = list(seeds)
    part = {}       # local -> set of field indices that carry the value (it entered a tuple/struct at those fields)
    wrap = {}       # local holding Ok(..)/Some(..)/Continue(..) of such a struct -> the struct's carrying fields
    structs = set(p_ for p_, a_ in (fn.fx.adts.items() if getattr(fn, "fx", None) is not None else []) if a_.get("kind") == "struct")

    def first_field(pl):
        for e in (pl.get("p") or []):
            if isinstance(e, dict) and "f" in e:
                return e["f"]
        return None
    while work:
        l = work.pop()
        for site, how in du.uses.get(l, []):
            n = site.node
            tgt = None
            tgt_part = None
            if l in wrap:
                if site.is_term and n["k"] == "call" and how == "arg0" and callee_orig(n) == "core::ops::try_trait::Try::branch" \
                        and not n["dest"].get("p"):
                    wrap.setdefault(n["dest"]["l"], set()).update(wrap[l])
                elif not site.is_term and how == "rv" and n["rv"]["k"] == "use" and not n["lhs"].get("p"):
                    pl_ = n["rv"]["op"].get("mv") or n["rv"]["op"].get("cp")
                    pr_ = (pl_ or {}).get("p") or []
                    if pl_ is not None and not pr_:
                        wrap.setdefault(n["lhs"]["l"], set()).update(wrap[l])
                    elif len(pr_) == 2 and isinstance(pr_[0], dict) and "dc" in pr_[0]:
                        tgt_part = set(wrap[l])       # the payload is the struct again
            if l in part:
                # only reads of the carrying fields (or of the whole value) see it
                pl_ = None
                if site.is_term and n["k"] == "call" and how.startswith("arg"):
                    a_ = n["args"][int(how[3:])]
                    pl_ = a_.get("mv") or a_.get("cp")
                elif not site.is_term and how == "rv":
                    rv_ = n["rv"]
                    pl_ = (rv_.get("op", {}).get("mv") or rv_.get("op", {}).get("cp")) if rv_["k"] in ("use", "cast") else rv_.get("pl")
                if pl_ is not None and pl_.get("l") == l:
                    ff = first_field(pl_)
                    if ff is not None and ff not in part[l]:
                        continue
                    if ff is None and not site.is_term and n["rv"]["k"] == "use" and not n["lhs"].get("p"):
                        tgt_part = set(part[l])      # the whole struct moves on: same fields carry it
            if site.is_term:
                if n["k"] != "call" or not how.startswith("arg"):
                    continue
                ai = int(how[3:])
                o = callee_orig(n)
                if o == VEC_PUSH and ai == 1:
                    via_collection = True
                    rl = op_local(n["args"][0])
                    for s2, _w in du.defs.get(rl, []):
                        if not s2.is_term and s2.node["rv"]["k"] == "ref":
                            tgt = s2.node["rv"]["pl"]["l"]
                            if "deref" in (s2.node["rv"]["pl"].get("p") or []):
                                # pushed into a Vec reached through a reference (`self.handles.push(h)`): the value
                                # the reference was taken of holds it
                                for x in _pointees(du, tgt):
                                    if x not in t:
                                        t.add(x)
                                        work.append(x)
                elif (o in (INTO_ITER, NEXT, "core::ops::deref::Deref::deref", "core::ops::deref::DerefMut::deref_mut",
                            "alloc::sync::Arc::<T>::new", "core::clone::Clone::clone", "core::ops::try_trait::Try::branch",
                            "alloc::boxed::Box::<T>::new", "alloc::boxed::box_new", "alloc::slice::<impl [T]>::into_vec",
                            "alloc::boxed::box_assume_init_into_vec_unsafe", "alloc::boxed::Box::<core::mem::MaybeUninit<T>, A>::assume_init",
                            "alloc::boxed::Box::<core::mem::MaybeUninit<T>, A>::write",
                            "core::result::Result::<T, E>::and_then", "core::result::Result::<T, E>::map_err",
                            "core::result::Result::<T, E>::expect", "core::result::Result::<T, E>::unwrap",
                            "core::option::Option::<T>::expect", "core::option::Option::<T>::unwrap",
                            "core::result::Result::<T, E>::unwrap_or_else", "core::result::Result::<T, E>::ok",
                            "anyhow::Context::context", "anyhow::Context::with_context")
                      or (o or "").startswith("core::iter::traits::") or (o or "").startswith("alloc::vec::Vec::<T, A>::into_")
                      or (o or "").startswith("core::slice::<impl [T]>::iter")) and ai == 0:
                    if o and o.endswith("::collect") or True:
                        via_collection = via_collection or (o or "").endswith("::collect") or o in (INTO_ITER, NEXT)
                    tgt = n["dest"]["l"]
            elif how == "rv":
                rv = n["rv"]
                if rv["k"] in ("use", "ref", "cast", "agg") or (through_bin and rv["k"] in ("bin", "un")):
                    tgt = n["lhs"]["l"]
                    if rv["k"] == "agg" and not n["lhs"].get("p") and (
                            rv.get("ak") == "tuple" or (rv.get("ak") == "adt" and rv.get("adt") in structs)):
                        tgt_part = set(i_ for i_, o_ in enumerate(rv["fields"]) if op_local(o_) == l)
                    elif rv["k"] == "agg" and not n["lhs"].get("p") and rv.get("ak") == "adt" and len(rv["fields"]) == 1 \
                            and l in part:
                        wrap.setdefault(tgt, set()).update(part[l])
                    pr = n["lhs"].get("p") or []
                    if pr and pr[0] == "deref":
                        # a write through a pointer (`vec![x]` initialises its box this way): what the pointer was
                        # derived from now holds the value too
                        back, seenb = [tgt], set()
                        while back:
                            x = back.pop()
                            if x in seenb:
                                continue
                            seenb.add(x)
                            for s3, _w3 in du.defs.get(x, []):
                                if s3.is_term:
                                    if callee_orig(s3.node) and s3.node["args"] and (
                                            "as_mut_ptr" in callee_orig(s3.node) or "deref" in callee_orig(s3.node).lower()):
                                        y = op_local(s3.node["args"][0])
                                        if y is not None:
                                            back.append(y)
                                    continue
                                r3 = s3.node["rv"]
                                y = None
                                if r3["k"] in ("ref", "rawptr"):
                                    y = r3["pl"]["l"]
                                elif r3["k"] in ("use", "cast"):
                                    y = op_local(r3["op"])
                                if y is not None:
                                    back.append(y)
                        for x in seenb:
                            if x not in t:
                                t.add(x)
                                work.append(x)
            if tgt is not None:
                if tgt not in t:
                    t.add(tgt)
                    if tgt_part:
                        part[tgt] = set(tgt_part)
                    work.append(tgt)
                elif tgt in part:
                    if tgt_part:
                        if not tgt_part <= part[tgt]:
                            part[tgt] |= tgt_part
                            work.append(tgt)
                    else:
                        del part[tgt]           # now wholly tainted
                        work.append(tgt)
    return t, via_collection


def move_chain(f, start, _depth=0):
    """Locals a value passes through by plain moves (let-bindings, argument passing into inlined helpers, a trip
    through a field of a tuple/struct that is later destructured, an `Ok(..)`/`Some(..)` wrapper unwrapped by
    `?`), and every other use of any of them: (aliases, [(site, how, local)])."""
    du = defuse(f)
    aliases = {start}
    work = [start]
    other = []
    while work:
        l = work.pop()
        for site, how in du.uses.get(l, []):
            n = site.node
            if site.is_term and n["k"] == "drop":
                continue
            if not site.is_term and how == "rv" and n["rv"]["k"] == "use" and "mv" in n["rv"]["op"] \
                    and not n["rv"]["op"]["mv"].get("p") and not n["lhs"].get("p"):
                t = n["lhs"]["l"]
                if t not in aliases:
                    aliases.add(t)
                    work.append(t)
                continue
            # moved into a field of a tuple / plain struct / Ok / Some: follow the reads of that field
            if not site.is_term and how == "rv" and n["rv"]["k"] == "agg" and n["rv"].get("ak") in ("tuple", "adt") \
                    and not n["lhs"].get("p") and _depth < 4:
                idxs = [i for i, o_ in enumerate(n["rv"]["fields"]) if op_local(o_) == l and "mv" in o_]
                if len(idxs) == 1:
                    al2, ot2 = move_chain(f, n["lhs"]["l"], _depth + 1)
                    escaped = False
                    for s2, h2, l2 in ot2:
                        n2 = s2.node
                        if not s2.is_term and h2 == "rv" and n2["rv"]["k"] == "use":
                            p2 = op_place(n2["rv"]["op"])
                            pr = [e for e in (p2.get("p") or []) if e != "deref" and not (isinstance(e, dict) and "dc" in e)]
                            if p2 is not None and p2["l"] == l2 and len(pr) == 1 and isinstance(pr[0], dict) and "f" in pr[0]:
                                if pr[0]["f"] == idxs[0]:
                                    if "mv" in n2["rv"]["op"] and not n2["lhs"].get("p"):
                                        t = n2["lhs"]["l"]
                                        if t not in aliases:
                                            aliases.add(t)
                                            work.append(t)
                                    else:
                                        other.append((s2, h2, l2))
                                continue            # a read of a sibling field does not touch our value
                        if s2.is_term and n2["k"] == "call" and callee_orig(n2) == "core::ops::try_trait::Try::branch" \
                                and not n2["dest"].get("p"):
                            # `?` on the wrapper: the payload comes back out of the ControlFlow
                            al3, ot3 = move_chain(f, n2["dest"]["l"], _depth + 1)
                            for s3, h3, l3 in ot3:
                                n3 = s3.node
                                if not s3.is_term and h3 == "rv" and n3["rv"]["k"] == "use":
                                    p3 = op_place(n3["rv"]["op"])
                                    pr3 = p3.get("p") or []
                                    if len(pr3) == 2 and isinstance(pr3[0], dict) and pr3[0].get("dc") == "Continue":
                                        t = n3["lhs"]["l"]
                                        if "mv" in n3["rv"]["op"] and t not in aliases:
                                            # the payload is the wrapper's field again (a struct or the value itself)
                                            sub_al, sub_ot = move_chain(f, t, _depth + 1)
                                            ot2 = ot2 + [x for x in sub_ot]
                                        continue
                                    if len(pr3) == 2 and isinstance(pr3[0], dict) and pr3[0].get("dc") == "Break":
                                        continue
                            continue
                        escaped = True
                        other.append((s2, h2, l2))
                    continue
            other.append((site, how, l))
    return aliases, other


def _ret_chain(fn):
    """Locals whose value becomes the function's return value by plain moves (through inlined helper returns)."""
    chain = {0}
    changed = True
    while changed:
        changed = False
        for b in fn.blocks:
            if b.get("cleanup"):
                continue
            for s in b["stmts"]:
                if s["lhs"]["l"] in chain and not s["lhs"].get("p") and s["rv"]["k"] == "use":
                    pl = op_place(s["rv"]["op"])
                    if pl and not pl.get("p") and pl["l"] not in chain:
                        chain.add(pl["l"])
                        changed = True
    return chain


def ok_blocks(fn):
    """Blocks that build the Ok(..) this function (or view) returns."""
    ch = _ret_chain(fn)
    return [bi for bi, b in enumerate(fn.blocks) if not b.get("cleanup") and any(
        s["lhs"]["l"] in ch and not s["lhs"].get("p") and s["rv"]["k"] == "agg" and s["rv"].get("variant") == "Ok"
        and s["rv"].get("adt") == "core::result::Result" for s in b["stmts"])]


# --------------------------------------------------------------------------
# T1 spawn/join
# --------------------------------------------------------------------------

def _closure_produces_handle(fx, cl):
    """The closure spawns a thread and returns its JoinHandle."""
    import views
    f = views.view(fx, cl, depth=3) if cl in fx.fns else None
    if f is None:
        return False
    for bi, t in q.calls_to(f, SPAWN):
        tn, _v = taint_from(f, [t["dest"]["l"]])
        if 0 in tn:
            return True
    return False


def _closure_joins_item(fx, cl):
    """The closure / function value joins the JoinHandle it receives as an item/parameter."""
    import views
    f = views.view(fx, cl, depth=3) if cl in fx.fns else None
    if f is None:
        return False
    params = [l for l in range(1, f.argc + 1) if "JoinHandle" in f.locals[l]["ty"]]
    if not params:
        return False
    tn, _v = taint_from(f, params)
    return any(op_local(t["args"][0]) in tn for bi, t in q.calls_to(f, JOIN))


def _spawn_join_in(fx, f, obs, covered):
    cfg = cfg_of(f)
    sources = []      # (block, term, handle local)
    for sb, st in q.calls_to(f, SPAWN):
        sources.append((sb, st, st["dest"]["l"], "thread::spawn"))
    for bi, t in f.calls():
        for fv in (t.get("fn") or {}).get("fnvals", []):
            if _closure_produces_handle(fx, fv):
                sources.append((bi, t, t["dest"]["l"], "closure %s spawns per item" % fv.split("::")[-1]))
    counters = {}
    for sb, st, hl, how in sources:
        origin = f.blocks[sb].get("origin", f.path)
        site = (origin, st["span"]["file"], st["span"]["line"])
        covered.add(site)
        n = counters.get(origin, 0)
        counters[origin] = n + 1
        key = mkkey("R-THREAD", origin, SPAWN, n, "joined")
        tainted, via = taint_from(f, [hl])
        via = via or how.startswith("closure")      # handles made per item live in a collection/iterator
        joins = [bi for bi, t in q.calls_to(f, JOIN) if op_local(t["args"][0]) in tainted]
        # a consuming call whose closure joins each item it is given
        for bi, t in f.calls():
            fvs = (t.get("fn") or {}).get("fnvals", [])
            if fvs and any(op_local(a) in tainted for a in t["args"]) and any(_closure_joins_item(fx, c) for c in fvs):
                joins.append(bi)
        oks = ok_blocks(f)
        if not joins:
            obs.append(Ob("R-THREAD", key, False, q.loc_of(st), origin, "spawned thread (%s) is never joined" % how,
                          dict(handle="_%d" % hl)))
            continue
        blocked_edges = []
        ok = True
        why = "join on every path to Ok"
        if via:
            for nb, nt in q.calls_to(f, NEXT):
                if op_local(nt["args"][0]) not in tainted:
                    continue
                sw = f.blocks[nt["target"]]["term"] if nt.get("target") is not None else None
                if not sw or sw["k"] != "switch":
                    continue
                explicit = {int(v): tb for v, tb in sw["targets"]}
                none_t = explicit.get(0, sw["otherwise"])
                some_t = explicit.get(1, sw["otherwise"])
                blocked_edges.append((nt["target"], none_t))
                if not cfg.passes_through(joins, some_t, [nb]):
                    ok = False
                    why = "an iteration of the joining loop can skip the join"
            why = why if not ok else "collected handles are all joined by a loop on every path to Ok"
        r = cfg.reach([sb], blocked=joins, blocked_edges=blocked_edges)
        leak = [b for b in oks if b in r]
        if leak:
            ok = False
            why = "Ok return bb%d reachable from the spawn without joining the thread" % leak[0]
        obs.append(Ob("R-THREAD", key, ok, q.loc_of(st), origin, "spawn at %s: %s" % (q.loc_of(st), why),
                      None if ok else dict(spawn="bb%d" % sb, joins=joins, ok_blocks=oks)))


def spawn_join(fx, crates=("libxcp", "xcp")):
    """Every spawned thread is joined on every path to Ok.  Evaluated on the inlined views of the functions that
    own the threads (both CopyDriver::copy and main), so spawn/join helpers are followed; any other function
    that spawns and is not part of those views is evaluated on its own."""
    import views
    obs = []
    covered = set()
    roots = [e for e in ENTRY_POINTS if e in fx.fns]
    if "xcp" in crates and MAIN in fx.fns:
        roots.append(MAIN)
    for rt in roots:
        v = views.view(fx, rt, depth=9)
        _spawn_join_in(fx, v, obs, covered)
    for f in ro.fns_in_scope(fx, crates=crates):
        if f.is_closure and _closure_produces_handle(fx, f.path):
            continue       # accounted for at the call that runs the closure
        pending = [(bi, t) for bi, t in q.calls_to(f, SPAWN) if (f.path, t["span"]["file"], t["span"]["line"]) not in covered]
        if pending:
            _spawn_join_in(fx, f, obs, covered)
    # (a shared spawn helper reduces the *source* sites to one: what is counted is the spawns judged, one per
    # inlined copy in the views of the functions that own the threads)
    nsp = len([o for o in obs if o.key.endswith("|joined") or "joined" in o.key])
    if nsp < (3 if "xcp" in crates else 2):
        obs.append(anchor_ob("R-THREAD", "thread::spawn sites (found %d)" % nsp))
    return obs


# --------------------------------------------------------------------------
# T3 work-queue sender protocol
# --------------------------------------------------------------------------

def sender_protocol(fx):
    """The sending half of the Operation work queue has exactly one owner: it is created in the driver's copy(),
    moved (never cloned) into exactly one spawned closure, and that closure is the walker role, which owns it by
    value -- so the queue closes when the walker returns, on every path.  Evaluated on the inlined views of both
    copy() functions (helpers that spawn the walker are followed)."""
    _op_types(fx)
    import views
    obs = []
    n = 0
    for f in ro.fns_in_scope(fx, crates=("libxcp",)):
        for bi, t in f.calls():
            p = callee_path(t) or ""
            if p.startswith("<crossbeam_channel::channel::Sender<T> as core::clone::Clone>::clone") and \
                    _has_op(" ".join(t.get("arg_tys", []))):
                obs.append(Ob("R-THREAD", mkkey("R-THREAD", f.path, "Sender<Operation>::clone", n), False, q.loc_of(t), f.path,
                              "the work-queue sender is cloned: the queue no longer closes when the walker returns",
                              dict(callee=p)))
                n += 1
    obs.append(Ob("R-THREAD", mkkey("R-THREAD", "libxcp", "Sender<Operation>::clone", 0, "scan"), True, "", "libxcp",
                  "no Sender<Operation>::clone in libxcp"))
    walker_roles = set(lab for lab, v in views.find_views(fx, lambda v: views._has_call(
        v, lambda t: (callee_path(t) or "").startswith("<walkdir::") and callee_orig(t) == NEXT)))
    for d in ENTRY_POINTS:
        if d not in fx.fns:
            continue
        f = views.view(fx, d, depth=9)
        du = defuse(f)
        found = 0
        for bi, t in q.calls_to(f, UNBOUNDED):
            if not _has_op(t.get("dest_ty", "")):
                continue
            found += 1
            senders = []
            for site, how in du.uses.get(t["dest"]["l"], []):
                if not site.is_term and how == "rv" and site.node["rv"]["k"] == "use":
                    p_ = op_place(site.node["rv"]["op"])
                    if p_ and p_.get("p") and isinstance(p_["p"][0], dict) and p_["p"][0].get("f") == 0:
                        senders.append(site.node["lhs"]["l"])
            for sl in senders:
                aliases, other = move_chain(f, sl)
                moved_into = []
                rest = []
                for site, how, l in other:
                    nd = site.node
                    if not site.is_term and nd["rv"]["k"] == "agg" and nd["rv"].get("ak") == "closure" and \
                            any(op_local(o_) == l and "mv" in o_ for o_ in nd["rv"]["fields"]):
                        moved_into.append(nd["rv"]["closure"])
                    else:
                        rest.append("%r %s" % (site, how))
                spawned = set()
                for sb, stt in q.calls_to(f, SPAWN):
                    spawned |= set(stt["fn"].get("fnvals", []))
                ok = len(moved_into) == 1 and not rest and moved_into[0] in spawned
                obs.append(Ob("R-THREAD", mkkey("R-THREAD", d, "work-queue sender", 0, "moved-once"), ok, q.loc_of(t), d,
                              "the work-queue sender is moved into exactly one spawned closure and used nowhere else: %s"
                              % ([m_.split("::")[-1] for m_ in moved_into] + rest), None if ok else dict(closures=moved_into, other_uses=rest)))
                for c in moved_into:
                    cf = fx.fn(c)
                    okw = c in walker_roles
                    byv = cf is not None and all(x["by"] == "value" for x in cf.captures if "Sender<" in x["ty"] and _has_op(x["ty"]))
                    obs.append(Ob("R-THREAD", mkkey("R-THREAD", d, "work-queue sender", 0, "owned-by-walker"), okw and byv,
                                  cf.loc() if cf else "", c,
                                  "the closure owning the sender (by value: %s) is the role that walks the tree: %s" % (byv, okw)))
                    # the walker role does not stash the sender away
                    wv = views.view(fx, c, depth=9)
                    leaks = []
                    if wv is not None:
                        for bi2, t2 in wv.calls():
                            o2 = callee_orig(t2)
                            if o2 in (VEC_PUSH, "core::mem::forget", "alloc::boxed::Box::<T>::leak", SPAWN) and \
                                    any("Sender<" in ty and _has_op(ty) for ty in t2.get("arg_tys", [])):
                                leaks.append(q.loc_of(t2))
                    obs.append(Ob("R-THREAD", mkkey("R-THREAD", d, "work-queue sender", 0, "not-leaked"), not leaks,
                                  cf.loc() if cf else "", c,
                                  "the walker role does not store, forget or hand on the sender: %s" % (not leaks),
                                  dict(sites=leaks) if leaks else None))
        if not found:
            obs.append(anchor_ob("R-THREAD", "%s creates the Operation work queue" % d))
    # consumers end when the queue closes: blocking iteration, no polling
    for lab, f in views.workers(fx):
        it = [t for bi, t in f.calls() if any("Receiver<" + w_ in " ".join(t.get("arg_tys", [])) for w_ in _OPW["types"]) and callee_orig(t) in (
            INTO_ITER, "crossbeam_channel::channel::Receiver::<T>::iter", "crossbeam_channel::channel::Receiver::<T>::recv")]
        obs.append(Ob("R-THREAD", mkkey("R-THREAD", lab, "Receiver<Operation>", 0, "iterated"), bool(it), f.loc(), lab,
                      "%s consumes its queue with the blocking iterator that ends when the queue closes: %s" % (lab, bool(it))))
    polling = {"crossbeam_channel::channel::Receiver::<T>::try_recv", "crossbeam_channel::channel::Receiver::<T>::try_iter",
               "crossbeam_channel::channel::Receiver::<T>::recv_timeout", "crossbeam_channel::channel::Receiver::<T>::recv_deadline",
               "std::thread::yield_now", "std::thread::sleep", "core::hint::spin_loop"}
    k = 0
    for f in ro.fns_in_scope(fx, crates=("libxcp", "xcp")):
        for bi, t in q.calls_to(f, polling):
            obs.append(Ob("R-THREAD", mkkey("R-THREAD", f.path, callee_orig(t), k, "polling"), False, q.loc_of(t), f.path,
                          "polling/sleeping primitive: a spin instead of a blocking wait", dict(callee=callee_orig(t))))
            k += 1
    obs.append(Ob("R-THREAD", mkkey("R-THREAD", "workspace", "polling-scan", 0), True, "", "",
                  "no try_recv/try_iter/recv_timeout/yield/sleep/spin_loop in libxcp or xcp"))
    return obs


# --------------------------------------------------------------------------
# T4 channels, pool
# --------------------------------------------------------------------------

def channels_unbounded(fx):
    _op_types(fx)
    obs = []
    k = 0
    nun = 0
    for f in ro.fns_in_scope(fx, crates=("libxcp", "xcp")):
        for bi, t in f.calls():
            o = callee_orig(t) or ""
            if o == UNBOUNDED:
                nun += 1
            if o in (BOUNDED, "std::sync::mpsc::sync_channel", "crossbeam_channel::channel::Sender::<T>::send_timeout"):
                obs.append(Ob("R-THREAD", mkkey("R-THREAD", f.path, o, k, "bounded-channel"), False, q.loc_of(t), f.path,
                              "a bounded channel: send can block and close a wait cycle", dict(callee=o)))
                k += 1
    ok = nun >= 1
    obs.append(Ob("R-THREAD", mkkey("R-THREAD", "workspace", UNBOUNDED, 0, "all-unbounded"), ok, "", "",
                  "all %d channels are created with unbounded() (sends never block)" % nun,
                  None if ok else dict(found=nun)))
    return obs


def pool_bound(fx, max_workers=64, nofile=1024):
    """C20: the only bounded queue is the pool's, built with a constant queue_len small enough that
    2*(queue + workers + 1) + 16 descriptors fit the default limit."""
    obs = []
    QL = "blocking_threadpool::Builder::queue_len"
    BUILD = "blocking_threadpool::Builder::build"
    import views
    cands = views.find_views(fx, lambda v: views._has_call(v, lambda t: callee_orig(t) == BUILD))
    cands = [(lab, v) for lab, v in cands if lab not in ENTRY_POINTS]
    if not cands:
        return [anchor_ob("R-THREAD", "a role that builds the block pool")]
    f = cands[0][1]
    ql = q.calls_to(f, QL)
    if not ql:
        obs.append(Ob("R-THREAD", mkkey("R-THREAD", PB_DISPATCH, QL, 0, "bounded-queue"), False, f.loc(), PB_DISPATCH,
                      "the block pool is built without queue_len(..): unbounded job queue, descriptors grow with the tree",
                      dict(note="Builder::queue_len missing")))
    for n, (bi, t) in enumerate(ql):
        c = t["args"][1].get("c")
        v = c.get("v") if c else None
        if v is None:
            l = op_local(t["args"][1])
            atoms, _f, _s = Prov(f).origins(l) if l is not None else ([], None, None)
            consts = [a for a in atoms if a.kind == "const"]
            others = [a for a in atoms if a.kind != "const"]
            if consts and not others:
                try:
                    v = int(str(consts[0].what).rsplit(":", 1)[1])
                except ValueError:
                    v = None
        lim = (nofile - 16) // 2 - max_workers - 1
        ok = isinstance(v, int) and 0 < v <= lim
        obs.append(Ob("R-THREAD", mkkey("R-THREAD", PB_DISPATCH, QL, n, "constant-bound"), ok, q.loc_of(t), PB_DISPATCH,
                      "pool queue length is the constant %s; with <= %d workers 2*(Q+W+1)+16 = %s <= %d" % (
                          v, max_workers, (2 * (v + max_workers + 1) + 16) if isinstance(v, int) else "?", nofile),
                      None if ok else dict(value=v, limit=lim)))
    # the pool that runs the jobs is that builder's product
    bl = q.calls_to(f, BUILD)
    okb = False
    for bi, t in bl:
        c, a, ff = q.arg_origin_calls(f, t, 0, table={"blocking_threadpool::Builder::num_threads": [0]})
        okb = okb or QL in c
    obs.append(Ob("R-THREAD", mkkey("R-THREAD", PB_DISPATCH, BUILD, 0, "from-bounded-builder"), okb, f.loc(), PB_DISPATCH,
                  "the pool is built from the builder that received queue_len: %s" % okb))
    qb = fx.fn(PB_QFB)
    unb = {"blocking_threadpool::ThreadPool::new", "blocking_threadpool::ThreadPool::with_name",
           "blocking_threadpool::ThreadPool::default"}
    k = 0
    for g in ro.fns_in_scope(fx, crates=("libxcp",)):
        for bi, t in q.calls_to(g, unb):
            obs.append(Ob("R-THREAD", mkkey("R-THREAD", g.path, callee_orig(t), k, "unbounded-pool"), False, q.loc_of(t), g.path,
                          "a pool with an unbounded queue", dict(callee=callee_orig(t))))
            k += 1
    # the pool passed down to the jobs is the one built here
    ex = []
    for g in ro.fns_in_scope(fx, crates=("libxcp",)):
        ex += [(g, bi, t) for bi, t in q.calls_to(g, POOL_EXECUTE)]
    if not ex:
        obs.append(anchor_ob("R-THREAD", "no ThreadPool::execute"))
    return obs


def handle_confinement(fx):
    """C20: a CopyHandle (or Arc of it) is never parked in a collection, channel or struct: it lives in a local
    of one loop iteration or in a job closure handed to the bounded pool."""
    obs = []
    collectors = {VEC_PUSH, CB_SEND, "alloc::collections::vec_deque::VecDeque::<T, A>::push_back",
                  "std::collections::hash::map::HashMap::<K, V, S>::insert", "alloc::vec::Vec::<T, A>::insert",
                  "alloc::vec::Vec::<T, A>::extend_from_slice", "core::mem::forget", "alloc::boxed::Box::<T>::leak",
                  "alloc::sync::Arc::<T>::into_raw", SPAWN}
    hosts = 0
    for f in ro.fns_in_scope(fx, crates=("libxcp",)):
        # handles obtained here (results of calls that yield a CopyHandle, by value or wrapped), and handles received
        # as parameters (closures run on a handle, helper functions)
        seeds = [t["dest"]["l"] for _, t in f.calls() if COPYHANDLE in t.get("dest_ty", "") and not t["dest"].get("p")
                 and not t.get("dest_ty", "").startswith("&") and callee_orig(t) not in (
                     "core::ops::try_trait::Try::branch", "core::ops::deref::Deref::deref")]
        builds = any(s_["rv"]["k"] == "agg" and s_["rv"].get("adt") == COPYHANDLE for b_ in f.blocks for s_ in b_["stmts"])
        is_method = bool(f.argc) and COPYHANDLE in f.locals[1]["ty"] and f.locals[1]["ty"].startswith("&")
        if f.path != DROP and not builds and not is_method:
            seeds += [l for l in range(1, f.argc + 1) if COPYHANDLE in f.locals[l]["ty"] and not f.locals[l]["ty"].startswith("&")]
        if not seeds:
            continue
        hosts += 1
        tainted, via = taint_from(f, seeds)
        bad = []
        for bi, t in f.calls():
            o = callee_orig(t)
            if o in collectors and any(op_local(a) in tainted for a in t["args"]):
                bad.append("%s at %s" % (o, q.loc_of(t)))
        # a handle put into a local struct value (a job description) travels on with it (taint); what must not
        # happen is writing it into storage that outlives the iteration: a field reached through a reference
        for bi, b in enumerate(f.blocks):
            if b.get("cleanup"):
                continue
            for s in b["stmts"]:
                rv = s["rv"]
                lp = s["lhs"].get("p") or []
                ops_ = rv.get("fields", []) if rv["k"] == "agg" else ([rv["op"]] if rv["k"] == "use" else [])
                if lp and "deref" in lp and any(op_local(o_) in tainted and "mv" in o_ for o_ in ops_):
                    bad.append("stored through a reference at %s:%d" % (s["span"]["file"], s["span"]["line"]))
        # closures capturing it must go to the bounded pool (or be called in place)
        for bi, b in enumerate(f.blocks):
            for s in b["stmts"]:
                rv = s["rv"]
                if rv["k"] == "agg" and rv.get("ak") == "closure" and any(op_local(o_) in tainted for o_ in rv["fields"]):
                    cl = rv["closure"]
                    cf = fx.fn(cl)
                    idx_ = [i_ for i_, o_ in enumerate(rv["fields"]) if op_local(o_) in tainted]
                    holds_by_value = cf is not None and any(i_ < len(cf.captures) and cf.captures[i_]["by"] == "value" and
                                                            not cf.captures[i_]["ty"].startswith("&") for i_ in idx_)
                    if holds_by_value:
                        to_pool = any(cl in (t["fn"].get("fnvals") or []) for _, t in q.calls_to(f, POOL_EXECUTE))
                        inplace = any(cl in (t["fn"].get("fnvals") or []) for _, t in q.calls_to(
                            f, {"core::result::Result::<T, E>::and_then", "core::result::Result::<T, E>::map"}))
                        if not to_pool and not inplace:
                            bad.append("closure %s owning a handle is not handed to the bounded pool" % cl)
        obs.append(Ob("R-THREAD", mkkey("R-THREAD", f.path, "CopyHandle", 0, "handle-confined"), not bad, f.loc(), f.path,
                      "handles held by %s stay in iteration-local values / pool jobs: %s" % (f.path.split("::")[-1], not bad),
                      dict(escapes=bad) if bad else None))
    # the same for the Arc clones made for block jobs
    f = fx.fn(PB_QFR)
    if f is not None:
        hosts += 1
        seeds = [l for l in range(1, f.argc + 1) if COPYHANDLE in f.locals[l]["ty"]]
        tainted, via = taint_from(f, seeds)
        bad = []
        for bi, t in f.calls():
            o = callee_orig(t)
            if o in collectors and any(op_local(a) in tainted for a in t["args"]):
                bad.append("%s at %s" % (o, q.loc_of(t)))
        obs.append(Ob("R-THREAD", mkkey("R-THREAD", PB_QFR, "Arc<CopyHandle>", 0, "handle-confined"), not bad, f.loc(), PB_QFR,
                      "Arc<CopyHandle> clones go only into pool jobs: %s" % (not bad), dict(escapes=bad) if bad else None))
    if hosts < 3:
        obs.append(anchor_ob("R-THREAD", "functions holding CopyHandles (found %d)" % hosts))
    # return types: only constructors (functions from which the CopyHandle aggregate is reachable without any
    # handle parameter) return a handle upward; a function that receives handles and returns one is a store
    cg = q.callgraph(fx)
    for g in ro.fns_in_scope(fx, crates=("libxcp",)):
        rt = g.locals[0]["ty"]
        if COPYHANDLE in rt and not g.is_closure:
            takes = any(COPYHANDLE in g.locals[l]["ty"] and not g.locals[l]["ty"].startswith("&") for l in range(1, g.argc + 1))
            ok = not takes
            obs.append(Ob("R-THREAD", mkkey("R-THREAD", g.path, "returns CopyHandle", 0), ok, g.loc(), g.path,
                          "a function returning a handle is a constructor (takes no handle): %s" % ok, None if ok else dict(ret=rt)))
    return obs


# --------------------------------------------------------------------------
# T5 updater protocol (channel closure)
# --------------------------------------------------------------------------

def updater_protocol(fx):
    """The channel closes: main's updater Arc is moved (not cloned) into the closure that runs the copy and main
    keeps nothing; that closure and both copy() functions own it by value; main's Error arm returns Err."""
    import views
    obs = []
    m = views.main_view(fx)
    if m is None:
        return [anchor_ob("R-THREAD", MAIN)]
    du = defuse(m)
    spawned = set()
    for sb, st in q.calls_to(m, SPAWN):
        spawned |= set(st["fn"].get("fnvals", []))
    # values of type Arc<dyn StatusUpdater> created in main (Arc::new / coercion), followed through moves
    starts = []
    for bi, t in m.calls():
        if callee_orig(t) == "alloc::sync::Arc::<T>::new" and ("ChannelUpdater" in t.get("dest_ty", "") or DYN_UPD in t.get("dest_ty", "")):
            starts.append(t["dest"]["l"])
    if not starts:
        obs.append(anchor_ob("R-THREAD", "main creates the updater Arc"))
    for a in starts:
        # an unsizing cast to Arc<dyn ..> continues the chain
        aliases, other = move_chain(m, a)
        changed = True
        while changed:
            changed = False
            for site, how, l in list(other):
                nd = site.node
                if not site.is_term and nd["rv"]["k"] == "cast" and not nd["lhs"].get("p"):
                    al2, ot2 = move_chain(m, nd["lhs"]["l"])
                    other.remove((site, how, l))
                    other += ot2
                    aliases |= al2
                    changed = True
        moved, rest = [], []
        for site, how, l in other:
            nd = site.node
            if not site.is_term and nd["rv"]["k"] == "agg" and nd["rv"].get("ak") == "closure" and \
                    any(op_local(o_) == l and "mv" in o_ for o_ in nd["rv"]["fields"]):
                moved.append(nd["rv"]["closure"])
            else:
                rest.append("%r %s" % (site, how))
        ok = len(moved) == 1 and moved[0] in spawned and not rest
        obs.append(Ob("R-THREAD", mkkey("R-THREAD", MAIN, "Arc<dyn StatusUpdater>", 0, "moved-into-copy"), ok, m.loc(), MAIN,
                      "main's updater Arc is moved into the copy closure and nothing else keeps it (so the channel closes): %s"
                      % ([x.split("::")[-1] for x in moved] + rest), None if ok else dict(moved=moved, other=rest)))
    for c in spawned:
        cf = fx.fn(c)
        if cf is None:
            continue
        caps = [x for x in cf.captures if DYN_UPD in x["ty"] or "ChannelUpdater" in x["ty"]]
        okc = all(x["by"] == "value" for x in caps) and bool(caps)
        obs.append(Ob("R-THREAD", mkkey("R-THREAD", MAIN, "copy closure", 0, "captures-updater-by-value"), okc, cf.loc(), c,
                      "the copy closure owns the updater (captured by value): %s" % [(x["name"], x["by"]) for x in caps]))
    for d in ENTRY_POINTS:
        f = fx.fn(d)
        if f is None:
            continue
        tys = [f.locals[i]["ty"] for i in range(1, f.argc + 1)]
        okv = any(t.startswith("alloc::sync::Arc<") and DYN_UPD in t for t in tys)
        obs.append(Ob("R-THREAD", mkkey("R-THREAD", d, "param updater", 0, "by-value"), okv, f.loc(), d,
                      "copy() receives the updater Arc by value: %s" % okv))
    obs += main_consumer_table(fx)
    return obs


def main_consumer_table(fx):
    """StatusUpdate variant -> action in main: the Error arm must end in an Err return (exit status != 0)."""
    from p_kinds import type_variant_switches
    import views
    obs = []
    m = views.main_view(fx)
    if m is None:
        return [anchor_ob("R-TABLE", "xcp::main")]
    sw = type_variant_switches(m, STATUS_UPDATE)
    if not sw:
        return [anchor_ob("R-TABLE", "main dispatches on StatusUpdate")]
    sb, mp = sw[0]
    if "Error" not in mp:
        return [anchor_ob("R-TABLE", "main: StatusUpdate::Error arm")]
    obs.append(ro.region_must_fail(fx, m, mp["Error"], "R-TABLE", mkkey("R-TABLE", MAIN, "StatusUpdate::Error", 0, "arm-fails"),
                                   "main's StatusUpdate::Error arm", loc=m.loc()))
    rt = m.locals[0]["ty"]
    okr = rt.startswith("core::result::Result<")
    how = "Err => non-zero exit status"
    if not okr:
        # `fn main() -> ExitCode { match run() { Ok(()) => SUCCESS, Err(e) => { report(e); FAILURE } } }` (or
        # process::exit): the failure signal of the process's entry point is a non-zero exit status; that every
        # Err reaches one is R-ERR's obligation on the call of the inner function
        import r_err as _re
        sig = _re.signal_blocks(m)
        exits = [v for v in sig.values() if "ExitCode" in v or "process::exit" in v]
        okr = bool(exits) and (rt in ("std::process::ExitCode", "()", "!"))
        how = "failure is turned into %s" % (sorted(set(exits)) or "nothing")
    obs.append(Ob("R-TABLE", mkkey("R-TABLE", MAIN, "returns Result", 0), okr, m.loc(), MAIN,
                  "main returns %s (%s)" % (rt, how)))
    return obs


# --------------------------------------------------------------------------
# T6 / T7 blocking structure
# --------------------------------------------------------------------------

def thread_roles(fx, _memo={}):
    """role name -> entry function path. Roles: main, closures given to thread::spawn, closures given to the pool.
    Found in the functions as written and, for closures that reach the spawn through a generic helper
    (`crew.spawn_worker(move || ..)`), in the inlined views of the entry points and of the roles found so far."""
    _op_types(fx)
    k = id(fx)
    if k in _memo and _memo[k][0] is fx:
        return _memo[k][1], _memo[k][2]
    import views
    roles = {"main": MAIN}
    kinds = {"main": "main"}
    for f in ro.fns_in_scope(fx, crates=("libxcp", "xcp")):
        for bi, t in q.calls_to(f, SPAWN):
            for fv in t["fn"].get("fnvals", []):
                roles[fv] = fv
                kinds[fv] = "thread"
        for bi, t in q.calls_to(f, POOL_EXECUTE):
            for fv in t["fn"].get("fnvals", []):
                roles[fv] = fv
                kinds[fv] = "pool-job"
    todo = [e for e in list(ENTRY_POINTS) + [MAIN] if e in fx.fns] + [e for e in roles.values() if e in fx.fns and e != MAIN]
    done = set()
    while todo:
        e = todo.pop()
        if e in done:
            continue
        done.add(e)
        try:
            v = views.view(fx, e)
        except Exception:
            continue
        if v is None:
            continue
        for bi, t in v.calls():
            o = callee_orig(t)
            if o not in (SPAWN, POOL_EXECUTE):
                continue
            for fv in (t["fn"].get("fnvals") or []):
                if fv in fx.fns and fx.fns[fv].is_closure and fv not in roles:
                    roles[fv] = fv
                    kinds[fv] = "thread" if o == SPAWN else "pool-job"
                    todo.append(fv)
    _memo[k] = (fx, roles, kinds)
    return roles, kinds


def role_code(fx, entry, role_entries):
    """Functions executed by a role: reachable from its entry without entering another role's entry closure.
    Virtual calls are followed to every workspace implementation."""
    cg = q.callgraph(fx)
    seen = set()
    work = [entry]
    while work:
        x = work.pop()
        if x in seen or x not in fx.fns:
            continue
        seen.add(x)
        for bi, dst, local, via in cg.out.get(x, []):
            if dst in role_entries and dst != entry:
                continue
            if local:
                work.append(dst)
            else:
                for impl in virtual_impls(fx, dst):
                    work.append(impl)
    return seen


def virtual_impls(fx, trait_item):
    """Workspace implementations of a trait method `krate::Trait::method`."""
    if "::" not in trait_item:
        return []
    tr, meth = trait_item.rsplit("::", 1)
    out = []
    for p in fx.fns:
        if p.startswith("<") and p.endswith(" as %s>::%s" % (tr, meth)):
            out.append(p)
    return out


def wait_graph(fx):
    _op_types(fx)
    roles, kinds = thread_roles(fx)
    entries = set(roles.values())
    code = {r: role_code(fx, e, entries) for r, e in roles.items()}
    edges = {}   # (src role, dst role) -> why
    # who holds a sender for each message type
    sends_op = set()
    sends_upd = set()
    for r, fns in code.items():
        for p in fns:
            f = fx.fns[p]
            for bi, t in f.calls():
                o = callee_orig(t)
                if o == CB_SEND and _has_op(" ".join(t.get("arg_tys", []))):
                    sends_op.add(r)
                if o == SEND:
                    sends_upd.add(r)
        ef = fx.fns.get(roles[r])
        if ef is not None and any(DYN_UPD in c["ty"] for c in ef.captures):
            sends_upd.add(r)
    for r, fns in code.items():
        for p in fns:
            f = fx.fns[p]
            spawn_taint = {}
            for sb, st in q.calls_to(f, SPAWN):
                tn, _v = taint_from(f, [st["dest"]["l"]])
                spawn_taint[sb] = (tn, st["fn"].get("fnvals", []))
            for bi, t in f.calls():
                o = callee_orig(t)
                pth = callee_path(t) or ""
                tys = " ".join(t.get("arg_tys", []))
                if o == JOIN:
                    l = op_local(t["args"][0])
                    for sb, (tn, fvs) in spawn_taint.items():
                        if l in tn:
                            for fv in fvs:
                                edges[(r, fv)] = "join at %s" % q.loc_of(t)
                elif o in (POOL_JOIN, POOL_EXECUTE):
                    for r2, k in kinds.items():
                        if k == "pool-job":
                            edges[(r, r2)] = "%s at %s" % (o.split("::")[-1], q.loc_of(t))
                elif (o == NEXT and "crossbeam_channel::channel::IntoIter<" in pth) or \
                        o in ("crossbeam_channel::channel::Receiver::<T>::recv",):
                    who = sends_op if _has_op(tys) else sends_upd if UPD_T in tys else set()
                    for r2 in who:
                        if r2 != r:
                            edges[(r, r2)] = "receive at %s" % q.loc_of(t)
    return roles, kinds, code, edges


def wait_for_acyclic(fx):
    _op_types(fx)
    obs = []
    roles, kinds, code, edges = wait_graph(fx)
    if len(roles) < 6:
        obs.append(anchor_ob("R-THREAD", "thread roles (found %d: %s)" % (len(roles), sorted(roles))))
    adj = {}
    for (a, b), why in edges.items():
        adj.setdefault(a, []).append(b)
    # cycle detection
    color = {}
    cyc = []

    def dfs(u, stack):
        color[u] = 1
        for v in adj.get(u, []):
            if color.get(v) == 1:
                cyc.append(stack[stack.index(v):] + [v] if v in stack else [u, v])
            elif v not in color:
                dfs(v, stack + [v])
        color[u] = 2
    for r in roles:
        if r not in color:
            dfs(r, [r])
    ok = not cyc
    obs.append(Ob("R-THREAD", mkkey("R-THREAD", "workspace", "wait-for-graph", 0, "acyclic"), ok, "", "",
                  "wait-for graph over %d thread roles and %d blocking edges is acyclic: %s" % (len(roles), len(edges), ok),
                  None if ok else dict(cycle=cyc[:2], edges={"%s -> %s" % k: v for k, v in edges.items()})))
    # pool jobs never wait for anybody
    for r, k in kinds.items():
        if k != "pool-job":
            continue
        out = [(b, why) for (a, b), why in edges.items() if a == r]
        blocking = []
        for p in code[r]:
            f = fx.fns[p]
            for bi, t in f.calls():
                o = callee_orig(t)
                pth = callee_path(t) or ""
                if o in BLOCKING or pth in BLOCKING:
                    blocking.append("%s at %s" % (o, q.loc_of(t)))
        okj = not out and not blocking
        obs.append(Ob("R-THREAD", mkkey("R-THREAD", r, "pool-job", 0, "non-blocking"), okj, fx.fns[r].loc(), r,
                      "pool job contains no blocking wait (join/execute/receive/lock): %s" % okj,
                      None if okj else dict(edges=out, calls=blocking)))
    return obs, dict(roles={r: kinds[r] for r in roles}, edges={"%s -> %s" % k: v for k, v in edges.items()})


# --------------------------------------------------------------------------
# C06 pieces
# --------------------------------------------------------------------------

def block_jobs_offset_only(fx):
    obs = []
    roles, kinds = thread_roles(fx)
    jobs = [r for r, k in kinds.items() if k == "pool-job"]
    if not jobs and PB_QFR in fx.fns:
        obs.append(anchor_ob("R-WHO", "pool job closures"))
    for j in jobs:
        f = fx.fn(j)
        obs += ro.region_forbids(fx, f, range(len(f.blocks)), CURSOR_BASED, "R-WHO",
                                 "block jobs must not use the shared file cursor", tag="pool-job-cursor")
    g = fx.fn("libfs::linux::copy_file_offset")
    if g is None:
        obs.append(anchor_ob("R-TABLE", "libfs::linux::copy_file_offset"))
    else:
        calls = q.calls_to(g, "libfs::linux::try_copy_file_range")
        if not calls:
            obs.append(anchor_ob("R-TABLE", "copy_file_offset calls try_copy_file_range"))
        du = defuse(g)
        for n, (bi, t) in enumerate(calls):
            for ai in (1, 3):
                l = op_local(t["args"][ai])
                some = False
                for site, whole in du.defs.get(l, []):
                    if not site.is_term and site.node["rv"]["k"] == "agg" and site.node["rv"].get("variant") == "Some":
                        some = True
                obs.append(Ob("R-TABLE", mkkey("R-TABLE", g.path, "try_copy_file_range", n, "arg%d-Some" % ai), some, q.loc_of(t),
                              g.path, "offset argument %d of the kernel copy is Some(explicit offset): %s" % (ai, some)))
        obs += ro.region_forbids(fx, g, range(len(g.blocks)), CURSOR_BASED - {"libfs::linux::copy_file_bytes"}, "R-WHO",
                                 "the offset copier itself never touches the file cursor", tag="copy_file_offset-cursor")
    return obs


def pool_join_before_ok(fx):
    """The role that builds the block pool waits for it before returning Ok."""
    import views
    obs = []
    BUILD = "blocking_threadpool::Builder::build"
    vs = views.find_views(fx, lambda v: views._has_call(v, lambda t: callee_orig(t) == BUILD))
    vs = [(lab, v) for lab, v in vs if lab not in ENTRY_POINTS]
    if not vs and PB_QFR in fx.fns:
        return [anchor_ob("R-THREAD", "a role that builds the block pool")]
    for lab, f in vs:
        cfg = cfg_of(f)
        pj = [bi for bi, t in q.calls_to(f, POOL_JOIN)]
        oks = ok_blocks(f)
        own = oks
        ok = bool(pj) and bool(own) and all(cfg.set_dominates(pj, o) for o in own)
        obs.append(Ob("R-THREAD", mkkey("R-THREAD", "role:pool-owner", POOL_JOIN, 0, "before-Ok"), ok, f.loc(), lab,
                      "the dispatcher waits for the block pool before returning Ok: %s" % ok,
                      None if ok else dict(pool_join=pj, ok_blocks=own)))
    return obs


def dirs_by_walker(fx):
    import views
    obs = []
    w = views.walker_view(fx)
    d = ro.performers(fx, w, CREATE_DIR_ALL, direct_only=True) if w else []
    obs.append(Ob("R-ORDER", mkkey("R-ORDER", WALKER, CREATE_DIR_ALL, 0, "in-walker-thread"), bool(d), w.loc() if w else "", WALKER,
                  "directories are created by the walker role itself, synchronously with the iteration: %s" % bool(d)))
    k = 0
    for f in ro.fns_in_scope(fx, crates=("libxcp",)):
        for bi, t in q.calls_to(f, {"walkdir::WalkDir::contents_first"}):
            obs.append(Ob("R-ORDER", mkkey("R-ORDER", f.path, callee_orig(t), k, "contents-first"), False, q.loc_of(t), f.path,
                          "contents_first: children are yielded before their directory", dict(callee=callee_orig(t))))
            k += 1
    obs.append(Ob("R-ORDER", mkkey("R-ORDER", "libxcp", "contents_first-scan", 0), True, "", "libxcp",
                  "the walk yields a directory before its contents (no contents_first)"))
    return obs


def c06(ctx):
    fx = ctx.fx("A")
    import p_kinds, p_meta
    ctx.add(dirs_by_walker(fx))
    ctx.add([o for o in p_kinds.filetype_table(fx) if "Dir" in o.key or "variants" in o.key])
    ctx.add([o for o in r_err.run(fx, crates=("libxcp",)) if "create_dir" in o.key])
    ctx.add(block_jobs_offset_only(fx))
    ctx.add(p_meta.ownership_facts(fx))
    ctx.add(spawn_join(fx, crates=("libxcp",)))
    ctx.add(pool_join_before_ok(fx))
    ctx.add(p_kinds.sibling_agreement(fx))
    # the block-level driver copies the same bytes as the file-level one: its jobs tile each range
    import p_tile
    ctx.add(p_tile.jobs_tile_range(fx))
    ctx.rep.extra["range_tiling"] = dict(decided=p_tile.jobs_tile_range.decided, undecided=p_tile.jobs_tile_range.notes)


def c07(ctx):
    fx = ctx.fx("A")
    import p_kinds
    ctx.add(sender_protocol(fx))
    ctx.add(channels_unbounded(fx))
    ctx.add(updater_protocol(fx))
    obs, graph = wait_for_acyclic(fx)
    ctx.add(obs)
    ctx.rep.extra["wait_for_graph"] = graph
    ctx.add(spawn_join(fx))
    ctx.add(pool_join_before_ok(fx))
    ctx.add(p_kinds.specials_never_opened(fx))
    # no spin: every retry loop over a byte count ends when no progress is made
    import r_short, p_gate
    r_short.run(fx, "A", reach=p_gate.driver_reach(fx))
    ctx.add(r_short.run.zero_progress)
    # error paths return (rather than park): error discipline of the thread bodies
    roles_, kinds_ = thread_roles(fx)
    members = set()
    for r_, e_ in roles_.items():
        if kinds_.get(r_) == "thread":
            members |= role_code(fx, e_, set(roles_.values()))
    members |= set(ENTRY_POINTS)
    ctx.add([o for o in r_err.run(fx, crates=("libxcp",)) if o.fn in members])


def c20(ctx):
    fx = ctx.fx("A")
    ctx.add(pool_bound(fx))
    ctx.add(handle_confinement(fx))
    ctx.add(channels_unbounded(fx))
    import p_meta
    ctx.add([o for o in p_meta.ownership_facts(fx) if "capture" in o.key or "Clone" in o.key or "fd-dup" in o.key])
