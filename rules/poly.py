"""Symbolic arithmetic over MIR: unsigned values as polynomials over opaque non-negative atoms.

An abstract interpretation in a small polynomial domain, used to decide *bounds* that are visible in the shape of the
arithmetic (`off = range.start + blkn * bsize` is not below `range.start`; `blkn * bsize` with `blkn >=
range.start / bsize` is not provably so).  No solver, no execution: expressions are normalised (sums of integer
multiples of products of atoms) and an inequality `P >= 0` is accepted iff, after replacing min()/max()/loop-index
atoms by their one-sided bounds, every coefficient is non-negative (every atom is an unsigned quantity).

Atoms
  known    parameters, fields of parameters / captured variables / the configuration, integer division results,
           `min`/`max` results (with their argument polynomials kept as bounds), indices of `lo..hi` loops (with
           `lo` kept as lower bound), monotone accumulators (`x = init; loop { x += nonneg }`: `init + a fresh atom`)
  opaque   anything else (results of other calls, values with several unrelated definitions, ...)
A verdict is given only when every atom involved is known; otherwise the caller reports "undecided".
"""
from cfg import defuse, whole_defs, op_local, op_place, callee_orig, callee_path

ADD = ("Add", "AddWithOverflow", "AddUnchecked")
SUB = ("Sub", "SubWithOverflow", "SubUnchecked")
MUL = ("Mul", "MulWithOverflow", "MulUnchecked")
DIVLIKE = ("Div", "Rem", "Shr", "ShrUnchecked", "BitAnd")
MIN_FNS = ("core::cmp::min", "core::cmp::Ord::min")
MAX_FNS = ("core::cmp::max", "core::cmp::Ord::max")
NEXT = "core::iter::traits::iterator::Iterator::next"
INTO_ITER = "core::iter::traits::collect::IntoIterator::into_iter"
UNSIGNED = ("u8", "u16", "u32", "u64", "u128", "usize")


class Poly:
    __slots__ = ("t",)

    def __init__(self, t=None):
        self.t = {k: v for k, v in (t or {}).items() if v != 0}

    @staticmethod
    def const(c):
        return Poly({(): int(c)})

    @staticmethod
    def atom(a):
        return Poly({(a,): 1})

    def __add__(self, o):
        t = dict(self.t)
        for k, v in o.t.items():
            t[k] = t.get(k, 0) + v
        return Poly(t)

    def __neg__(self):
        return Poly({k: -v for k, v in self.t.items()})

    def __sub__(self, o):
        return self + (-o)

    def __mul__(self, o):
        t = {}
        for k1, v1 in self.t.items():
            for k2, v2 in o.t.items():
                k = tuple(sorted(k1 + k2))
                t[k] = t.get(k, 0) + v1 * v2
        return Poly(t)

    def atoms(self):
        return set(a for k in self.t for a in k)

    def nonneg(self):
        return all(v >= 0 for v in self.t.values())

    def subst(self, a, p):
        """Replace atom a by polynomial p."""
        out = Poly()
        for k, v in self.t.items():
            term = Poly({(): v})
            for x in k:
                term = term * (p if x == a else Poly.atom(x))
            out = out + term
        return out

    def __repr__(self):
        if not self.t:
            return "0"
        parts = []
        for k, v in sorted(self.t.items()):
            m = "*".join(k)
            if not k:
                parts.append("%+d" % v)
            elif v == 1:
                parts.append("+" + m)
            elif v == -1:
                parts.append("-" + m)
            else:
                parts.append("%+d*%s" % (v, m))
        s = " ".join(parts)
        return s[1:] if s.startswith("+") else s


class Sym:
    """Evaluator for one function body."""

    def __init__(self, f, env=None):
        self.f = f
        self.du = defuse(f)
        self.env = env or {}          # captured-field index -> Poly (for closures), parameter local -> Poly
        self.memo = {}
        self.busy = set()
        self.known = {}               # atom -> description
        self.opaque = {}              # atom -> why
        self.lower = {}               # atom -> [Poly]  (atom >= each)
        self.upper = {}               # atom -> [Poly]  (atom <= each)
        self.weak = set()             # atoms some of whose bounds did not resolve
        self.phi = {}                 # atom -> [Poly]  (the value is one of these)
        self.phi_guard = {}           # atom -> [{rel: (op, A, B, truth) | None, known: bool}] per alternative
        self.divinfo = {}             # atom -> (op, dividend Poly, divisor Poly)   op in Div / Rem / DivCeil

    # ---- atoms
    def _known(self, name, desc):
        self.known[name] = desc
        return Poly.atom(name)

    def _opaque(self, name, why):
        self.opaque[name] = why
        return Poly.atom(name)

    def _lname(self, l):
        n = self.f.name_of_local.get(l)
        return "%s#%d" % (n, l) if n else "_%d" % l

    # ---- places
    def _root(self, l, seen=None):
        """Follow refs / derefs / Deref::deref / moves back to the local a place is rooted in; returns (local, path)."""
        path = []
        for _ in range(24):
            ds = whole_defs(self.f, l)
            if len(ds) != 1:
                return l, path
            s = ds[0]
            if s.is_term:
                t = s.node
                if t["k"] == "call" and (callee_orig(t) or "").endswith(("Deref::deref", "DerefMut::deref_mut", "AsRef::as_ref",
                                                                          "Borrow::borrow", "Clone::clone")) and t["args"]:
                    pl = op_place(t["args"][0])
                    if pl is None:
                        return l, path
                    path = [e.get("n") or str(e["f"]) for e in pl.get("p", []) if isinstance(e, dict) and "f" in e] + path
                    l = pl["l"]
                    continue
                return l, path
            rv = s.node["rv"]
            if rv["k"] == "ref":
                pl = rv["pl"]
            elif rv["k"] in ("use", "cast"):
                pl = op_place(rv["op"])
                if pl is None:
                    return l, path
            else:
                return l, path
            path = [e.get("n") or str(e["f"]) for e in pl.get("p", []) if isinstance(e, dict) and "f" in e] + path
            l = pl["l"]
        return l, path

    def place(self, pl):
        proj = [e for e in pl.get("p", []) if e != "deref"]
        if not proj:
            return self.local(pl["l"])
        if any(not (isinstance(e, dict) and "f" in e) for e in proj):
            return self._opaque("place(%s)" % self._lname(pl["l"]), "projection other than a field")
        # `.0` of a checked-arithmetic tuple
        ds = whole_defs(self.f, pl["l"])
        if len(proj) == 1 and len(ds) == 1 and not ds[0].is_term:
            rv = ds[0].node["rv"]
            if rv["k"] == "bin" and rv["op"].endswith("WithOverflow"):
                if proj[0]["f"] == 0:
                    return self.local(pl["l"])
                return self._opaque("ovf(%s)" % self._lname(pl["l"]), "overflow flag")
            if rv["k"] == "agg" and rv.get("ak") in ("tuple", "adt", "closure") and proj[0]["f"] < len(rv["fields"]) \
                    and not self._partially_assigned(pl["l"]):
                return self.operand(rv["fields"][proj[0]["f"]])
        fpath = [e.get("n") or str(e["f"]) for e in proj]
        root, pre = self._root(pl["l"])
        full = pre + fpath
        if self._partially_assigned(root) or self._partially_assigned(pl["l"]):
            return self._opaque("field(%s.%s)" % (self._lname(root), ".".join(full)), "the structure is modified in place")
        # closure environment
        if root == 1 and self.f.is_closure and len(full) >= 1 and full[0].isdigit() and int(full[0]) in self.env and len(full) == 1:
            return self.env[int(full[0])]
        if root == 1 and self.f.is_closure and full and full[0].isdigit() and len(full) == 1:
            return self._known("cap%s" % full[0], "captured variable %s" % full[0])
        ds = whole_defs(self.f, root)
        argc = self.f.raw.get("argc", 0)
        if 1 <= root <= argc and not ds:
            return self._known("%s.%s" % (self._lname(root), ".".join(full)), "field of parameter %s" % self._lname(root))
        if full and full[-1] in ("block_size",):
            return self._known("cfg." + full[-1], "configuration value")
        if len(ds) == 1 and not ds[0].is_term and ds[0].node["rv"]["k"] == "agg":
            rv = ds[0].node["rv"]
            names = rv.get("fnames") or [str(i) for i in range(len(rv["fields"]))]
            if full[0] in names and len(full) == 1:
                return self.operand(rv["fields"][names.index(full[0])])
            if full[0].isdigit() and int(full[0]) < len(rv["fields"]) and len(full) == 1:
                return self.operand(rv["fields"][int(full[0])])
        return self._opaque("field(%s.%s)" % (self._lname(root), ".".join(full)), "field of a computed value")

    def _partially_assigned(self, l):
        return any(not whole for s, whole in self.du.defs.get(l, []))

    def operand(self, o):
        if "c" in o:
            v = o["c"].get("v")
            if isinstance(v, int) and not isinstance(v, bool):
                return Poly.const(v)
            return self._opaque("const?", "non-integer constant")
        pl = op_place(o)
        if pl is None:
            return self._opaque("op?", "unknown operand")
        return self.place(pl)

    # ---- locals
    def local(self, l):
        if l in self.memo:
            return self.memo[l]
        if l in self.busy:
            return Poly.atom("self%d" % l)
        self.busy.add(l)
        try:
            p = self._local(l)
        finally:
            self.busy.discard(l)
        self.memo[l] = p
        return p

    def _local(self, l):
        f = self.f
        argc = f.raw.get("argc", 0)
        ds = whole_defs(f, l)
        if 1 <= l <= argc and not ds:
            if l in self.env:
                return self.env[l]
            return self._known(self._lname(l), "parameter")
        if not ds:
            return self._opaque(self._lname(l), "no definition found")
        if len(ds) > 1:
            return self._accumulator(l, ds)
        return self._def(l, ds[0])

    def _def(self, l, s):
        if s.is_term:
            t = s.node
            if t["k"] != "call":
                return self._opaque(self._lname(l), "defined by a non-call terminator")
            o = callee_orig(t) or callee_path(t) or ""
            if o in MIN_FNS + MAX_FNS and len(t["args"]) == 2:
                a, b = self.operand(t["args"][0]), self.operand(t["args"][1])
                nm = "%s(%s, %s)@%s" % ("min" if o in MIN_FNS else "max", a, b, self._lname(l))
                p = self._known(nm, "min/max of two values")
                (self.upper if o in MIN_FNS else self.lower)[nm] = [a, b]
                self._bounds_quality(nm, (a, b))
                return p
            if o.endswith("::div_ceil") or o.endswith("::next_multiple_of") or o.endswith("::saturating_sub") \
                    or o.endswith("::checked_div") or o.endswith("::isqrt"):
                args = [self.operand(a) for a in t["args"]]
                nm = "%s(%s)@%s" % (o.split("::")[-1], ", ".join(map(repr, args)), self._lname(l))
                p = self._known(nm, "integer helper")
                if o.endswith("::div_ceil") and len(args) == 2:
                    self.divinfo[nm] = ("DivCeil", args[0], args[1])
                if o.endswith("::saturating_sub"):
                    self.upper[nm] = [args[0]]
                self._bounds_quality(nm, args)
                return p
            return self._opaque("%s()@%s" % (o.split("::")[-1], self._lname(l)), "result of a call")
        rv = s.node["rv"]
        k = rv["k"]
        if k in ("use", "cast"):
            if k == "cast" and rv.get("kind") not in (None, "IntToInt", "Misc"):
                return self._opaque(self._lname(l), "non-integer cast")
            pl = op_place(rv["op"])
            if pl is not None:
                ind = self._induction(pl)
                if ind is not None:
                    return ind
            return self.operand(rv["op"])
        if k == "bin":
            a, b = self.operand(rv["a"]), self.operand(rv["b"])
            op = rv["op"]
            if op in ADD:
                return a + b
            if op in SUB:
                return a - b
            if op in MUL:
                return a * b
            if op in DIVLIKE:
                nm = "%s(%s, %s)" % (op.lower(), a, b)
                p = self._known(nm, "integer %s" % op.lower())
                if op in ("Div", "Rem"):
                    self.divinfo[nm] = (op, a, b)
                if op in ("Div", "Shr", "ShrUnchecked", "BitAnd"):
                    self.upper[nm] = [a]
                elif op == "Rem":
                    self.upper[nm] = [a, b]
                self._bounds_quality(nm, (a, b))
                return p
            return self._opaque(self._lname(l), "operator %s" % op)
        return self._opaque(self._lname(l), "rvalue %s" % k)

    def _induction(self, pl):
        """`(x as Some).0` where x = Range::next(&mut it) and it = (lo..hi).into_iter(): a loop index >= lo."""
        proj = [e for e in pl.get("p", []) if e != "deref"]
        if len(proj) != 2 or not (isinstance(proj[0], dict) and proj[0].get("dc") == "Some"):
            return None
        ds = whole_defs(self.f, pl["l"])
        if len(ds) != 1 or not ds[0].is_term or ds[0].node["k"] != "call":
            return None
        t = ds[0].node
        if (callee_orig(t) or "") != NEXT or "range::Range" not in (callee_path(t) or "") + " ".join(t.get("arg_tys", [])):
            return None
        al = op_local(t["args"][0])
        root, _p = self._root(al)
        # the iterator: moved from into_iter(Range{lo, hi})
        rng = None
        for _ in range(6):
            ds2 = whole_defs(self.f, root)
            if len(ds2) != 1:
                return None
            s2 = ds2[0]
            if s2.is_term:
                t2 = s2.node
                if t2["k"] == "call" and (callee_orig(t2) or "") == INTO_ITER:
                    root = op_local(t2["args"][0])
                    continue
                return None
            rv2 = s2.node["rv"]
            if rv2["k"] == "use" and op_local(rv2["op"]) is not None and not op_place(rv2["op"]).get("p"):
                root = op_local(rv2["op"])
                continue
            if rv2["k"] == "agg" and "Range" in (rv2.get("adt") or "") and len(rv2["fields"]) == 2:
                rng = rv2
            break
        if rng is None:
            return None
        lo, hi = self.operand(rng["fields"][0]), self.operand(rng["fields"][1])
        nm = "idx@%s" % self._lname(pl["l"])
        p = self._known(nm, "index of a `lo..hi` loop")
        self.lower[nm] = [lo]
        self.upper[nm] = [hi]      # strict, which is stronger
        self._bounds_quality(nm, (lo, hi))
        return p

    def _bounds_quality(self, nm, polys):
        """The atom itself is a known non-negative value; a bound that does not resolve is dropped, and the atom
        is remembered as *weak*: a proof that fails with it involved is "undecided", not a refutation."""
        for tbl in (self.lower, self.upper):
            if nm in tbl:
                good = [b for b in tbl[nm] if self.decided(b)]
                if len(good) != len(tbl[nm]):
                    self.weak.add(nm)
                tbl[nm] = good
        for x in polys:
            if not self.decided(x):
                self.weak.add(nm)

    def _accumulator(self, l, ds):
        """x = init; loop { x = x + nonneg }  ->  init + fresh atom."""
        me = Poly.atom("self%d" % l)
        inits, steps = [], []
        for s in ds:
            p = self._def(l, s)
            if ("self%d" % l,) in p.t or any(("self%d" % l) in k for k in p.t):
                steps.append(p)
            else:
                inits.append(p)
        if not steps and inits and all(self.decided(x) for x in inits):
            nm = "oneof@%s" % self._lname(l)
            self.phi[nm] = inits
            self.phi_guard[nm] = [self._guard(s_, [o for o in ds if o is not s_]) for s_ in ds]
            if any(not g_["known"] for g_ in self.phi_guard[nm]):
                self.weak.add(nm)
            return self._known(nm, "one of several values, by control flow")
        if len(inits) != 1 or not steps:
            return self._opaque(self._lname(l), "several unrelated definitions")
        for p in steps:
            rest = p - me
            if any(("self%d" % l) in k for k in rest.t) or not rest.nonneg():
                return self._opaque(self._lname(l), "updated other than by adding a non-negative amount")
        nm = "grown@%s" % self._lname(l)
        g = self._known(nm, "what a monotone accumulator has gained")
        return inits[0] + g

    def _guard(self, s, others=()):
        """The test under which definition site s is the one that takes effect, for a value that is "one of several by
        control flow".  Returns a dict:
            rel    (op, A, B, truth) -- on the path to s, `A op B` has that truth value (A, B polynomials) -- or None
            known  False if s is conditional on something this function does not understand (the caller then treats
                   the value as weak: a failed proof is "undecided", not a refutation)
        Understood: the site's block is entered, through gotos only, from one arm of a two-way switch on a comparison
        of two resolving integer expressions; or the block dominates every other definition (a default value)."""
        from cfg import cfg_of
        g = cfg_of(self.f)
        b = s.bb
        if others and all(g.dominates(b, o.bb) for o in others if o.bb != b):
            return dict(rel=None, known=True)
        for _ in range(4):
            ps = g.pred[b]
            if len(ps) != 1:
                return dict(rel=None, known=False)
            t = self.f.blocks[ps[0]]["term"]
            if t["k"] in ("goto", "assert") or (t["k"] == "call" and len(g.succ[ps[0]]) == 1):
                b = ps[0]
                continue
            if t["k"] != "switch" or t.get("op_ty") != "bool" or len(t["targets"]) != 1:
                return dict(rel=None, known=False)
            val, tb = t["targets"][0]
            if tb == t["otherwise"]:
                return dict(rel=None, known=False)
            if str(val) == "0":
                cond_true = (b == t["otherwise"])
            else:
                cond_true = (b == tb)
            cl = op_local(t["op"])
            ds = whole_defs(self.f, cl) if cl is not None else []
            if len(ds) != 1 or ds[0].is_term or ds[0].node["rv"]["k"] != "bin" \
                    or ds[0].node["rv"]["op"] not in ("Eq", "Ne", "Lt", "Le", "Gt", "Ge"):
                return dict(rel=None, known=False)
            rv = ds[0].node["rv"]
            A, B = self.operand(rv["a"]), self.operand(rv["b"])
            if not self.decided(A) or not self.decided(B):
                return dict(rel=None, known=False)
            return dict(rel=(rv["op"], A, B, cond_true), known=True)
        return dict(rel=None, known=False)

    # ---- proving
    def decided(self, p):
        return not [a for a in p.atoms() if a in self.opaque or a.startswith("self")]

    def weak_in(self, p, seen=None):
        """Weak atoms the proof of p may have needed (through phi alternatives and bounds as well)."""
        seen = set() if seen is None else seen
        out = set()
        for a in p.atoms():
            if a in seen:
                continue
            seen.add(a)
            if a in self.weak:
                out.add(a)
            for tbl in (self.phi, self.lower, self.upper):
                for b in tbl.get(a, []):
                    out |= self.weak_in(b, seen)
        return out

    def prove_nonneg(self, p, depth=0):
        """True if p >= 0 follows from atoms >= 0 and the one-sided bounds recorded for min/max/index atoms."""
        if p.nonneg():
            return True
        if depth > 8:
            return False
        for a in sorted(p.atoms()):
            if a in self.phi:
                return all(self.prove_nonneg(p.subst(a, alt), depth + 1) for alt in self.phi[a])
        # substitute bounded atoms in the direction that can only lower p
        for k, v in sorted(p.t.items()):
            for a in set(k):
                if k.count(a) != 1:
                    continue
                bounds = self.lower.get(a, []) if v > 0 else self.upper.get(a, [])
                # (the other atoms of the monomial are non-negative, so the bound carries over)
                for b in bounds:
                    q_ = self._subst_in_term(p, k, a, b)
                    if q_ is not None and self.prove_nonneg(q_, depth + 1):
                        return True
        return False

    @staticmethod
    def _subst_in_term(p, k, a, b):
        """p with the single monomial k's atom a replaced by polynomial b."""
        v = p.t[k]
        rest = Poly({kk: vv for kk, vv in p.t.items() if kk != k})
        term = Poly({(): v})
        done = False
        for x in k:
            if x == a and not done:
                term = term * b
                done = True
            else:
                term = term * Poly.atom(x)
        return rest + term
