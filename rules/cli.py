import sys, os, subprocess, time
import facts


def cmd_setup(argv):
    d = os.path.join(facts.VERIF, "driver")
    env = dict(os.environ, CARGO_NET_OFFLINE="true")
    p = subprocess.run(["cargo", "build", "--release", "--offline"], cwd=d, env=env)
    return p.returncode


def cmd_dump(argv):
    cfg = "A"
    if argv and argv[0] in facts.CONFIGS:
        cfg = argv.pop(0)
    fx = facts.load(cfg)
    for pat in argv:
        for p, f in sorted(fx.fns.items()):
            if pat in p:
                facts.dump_fn(f)
                print()
    return 0


def cmd_facts(argv):
    for cfg in (argv or ["A"]):
        t = time.time()
        fx = facts.load(cfg)
        print(cfg, fx.counts(), "%.1fs" % (time.time() - t))
    return 0


def main(argv):
    if not argv:
        print("usage: verif setup | facts [cfg..] | dump [cfg] <fn-substr>.. | check <Cxx> [--tier quick|thorough]")
        return 2
    cmd = argv[0]
    if cmd == "setup":
        return cmd_setup(argv[1:])
    if cmd == "dump":
        return cmd_dump(argv[1:])
    if cmd == "facts":
        return cmd_facts(argv[1:])
    if cmd == "explain":
        import json
        for pth in argv[1:]:
            j = json.load(open(pth))
            print("property : %s   (configuration %s)" % (j.get("property"), j.get("cfg")))
            print("rule     : %s" % j.get("rule"))
            print("instance : %s" % j.get("key"))
            print("where    : %s  in %s" % (j.get("loc"), j.get("fn")))
            print("what     : %s" % j.get("what"))
            if j.get("witness") is not None:
                print("witness  : %s" % json.dumps(j["witness"], indent=2))
            print("re-check : ./verif check %s   (the verdict is recomputed from /repo's current tree; `./verif dump <fn>` prints the MIR facts of the function)" % j.get("property"))
        return 0
    if cmd == "check":
        import check
        return check.main(argv[1:])
    print("unknown command", cmd)
    return 2
