"""Query layer used by the per-property rules: call-site lookup, whole-workspace
call graph with closures, region reachability, config-field gating, provenance
helpers.  Everything is keyed by resolved item paths, never by text or line."""
from collections import defaultdict

from cfg import (cfg_of, defuse, Prov, Flow, op_local, op_place, callee_path, callee_orig, place_fields,
                 rv_operands, is_log_span)
from r_err import in_scope_fn, span_excluded


def names(t):
    f = t.get("fn") or {}
    return f.get("orig"), f.get("path")


def is_call_to(t, targets):
    """targets: a path or a set of paths, matched against the unresolved item path (trait item /
    inherent fn) and the resolved path."""
    if isinstance(targets, str):
        targets = (targets,)
    o, p = names(t)
    return o in targets or p in targets


def calls_to(fn, targets, include_macro=False):
    out = []
    for bi, t in fn.calls():
        if not include_macro and span_excluded(t["span"]):
            continue
        if is_call_to(t, targets):
            out.append((bi, t))
    return out


def loc_of(t):
    return "%s:%d" % (t["span"]["file"], t["span"]["line"])


# --------------------------------------------------------------------------
# call graph
# --------------------------------------------------------------------------

class CallGraph:
    """fn path -> list of (block, callee name, is_local, via) where callee name is the resolved path
    for workspace functions (and closures) and the unresolved item path for external ones."""

    def __init__(self, fx):
        self.fx = fx
        self.out = defaultdict(list)
        self.callers = defaultdict(set)
        for path, f in fx.fns.items():
            # closures handed to a call (spawn, execute, map_err, ...) run when/where that call says: they are
            # attributed to the call site, not to the place the closure value is built
            passed = set()
            for b in f.blocks:
                t = b["term"]
                if t["k"] == "call":
                    passed |= set((t.get("fn") or {}).get("fnvals", []))
                    p0 = (t.get("fn") or {}).get("path")
                    if p0:
                        passed.add(p0)
            for bi, b in enumerate(f.blocks):
                if b.get("cleanup"):
                    continue
                for s in b["stmts"]:
                    rv = s["rv"]
                    if rv["k"] == "agg" and rv.get("ak") == "closure" and rv["closure"] not in passed:
                        self._edge(path, bi, rv["closure"], True, "closure-def")
                    # function items used as values
                    for o in rv_operands(rv)[0]:
                        c = o.get("c")
                        if c and "fn" in c:
                            self._edge(path, bi, c["fn"]["path"], c["fn"]["path"] in fx.fns, "fn-value")
                t = b["term"]
                if t["k"] != "call":
                    continue
                fnd = t["fn"]
                if "indirect" in fnd:
                    continue
                p = fnd.get("path")
                o = fnd.get("orig")
                if p in fx.fns:
                    self._edge(path, bi, p, True, "call")
                else:
                    self._edge(path, bi, o or p, False, "call")
                for fv in fnd.get("fnvals", []):
                    if fv in fx.fns:
                        self._edge(path, bi, fv, True, "fn-arg")
                for a in t["args"]:
                    c = a.get("c")
                    if c and "fn" in c:
                        pp = c["fn"]["path"]
                        self._edge(path, bi, pp if pp in fx.fns else c["fn"].get("orig", pp), pp in fx.fns, "fn-arg")

    def _edge(self, src, bi, dst, local, via):
        self.out[src].append((bi, dst, local, via))
        self.callers[dst].add(src)

    def reach(self, start, blocks=None, skip_macro_blocks=True):
        """All callee names reachable from `start` (optionally only from the given blocks of start),
        transitively through workspace functions. Returns dict name -> one witness path (list)."""
        seen = {}
        work = []
        for bi, dst, local, via in self.out.get(start, []):
            if blocks is not None and bi not in blocks:
                continue
            work.append((dst, local, [start, dst]))
        while work:
            name, local, pth = work.pop()
            if name in seen:
                continue
            seen[name] = pth
            if local:
                for bi, dst, l2, via in self.out.get(name, []):
                    if dst not in seen:
                        work.append((dst, l2, pth + [dst]))
        return seen

    def local_reach(self, start):
        return set(n for n in self.reach(start) if n in self.fx.fns) | {start}


_cg = {}


def callgraph(fx):
    if id(fx) not in _cg:
        _cg[id(fx)] = CallGraph(fx)
    return _cg[id(fx)]


# --------------------------------------------------------------------------
# gating on configuration fields
# --------------------------------------------------------------------------

def switch_field_reads(fn, bi):
    """For a `switch` terminator at block bi: set of (adt, field, polarity_flip) read by its operand.
    polarity_flip counts logical negations between the field and the operand."""
    t = fn.blocks[bi]["term"]
    if t["k"] != "switch":
        return []
    l = op_local(t["op"])
    if l is None:
        return []
    pl = op_place(t["op"])
    pre = []
    if pl.get("p"):
        # `match cfg.flag { true => .. }` switches on the field place itself; `match (a, b) { (true, false) => .. }`
        # on a field of a tuple built just before
        for f_ in place_fields(pl):
            pre.append((f_[0], f_[1], 0, None))
        src = agg_field_source(fn, pl)
        if src is not None:
            sl = op_local(src)
            if sl is None:
                return pre
            for f_ in place_fields(op_place(src)):
                pre.append((f_[0], f_[1], 0, None))
            return pre + _bool_origin_fields(fn, sl)
    return pre + _bool_origin_fields(fn, l)


def agg_field_source(fn, pl):
    """If place `pl` is `<local>.i` (or `(*<ref chain>).i`) and that local is defined once, by a tuple/struct
    aggregate (possibly moved through plain copies), the operand that was put into field i; else None."""
    pr = [e for e in pl.get("p", []) if e != "deref"]
    if len(pr) != 1 or not isinstance(pr[0], dict) or "f" not in pr[0]:
        return None
    idx = pr[0]["f"]
    du = defuse(fn)
    l = pl["l"]
    for _ in range(32):
        from cfg import whole_defs
        ds = whole_defs(fn, l)
        if len(ds) != 1 or ds[0].is_term:
            return None
        rv = ds[0].node["rv"]
        if rv["k"] == "agg" and rv.get("ak") in ("tuple", "adt", "closure") and idx < len(rv["fields"]) and \
                (rv.get("ak") != "adt" or rv.get("adt") not in ("core::option::Option", "core::result::Result")):
            return rv["fields"][idx]
        if rv["k"] in ("use", "cast"):
            p2 = op_place(rv["op"])
            if p2 is None or [e for e in p2.get("p", []) if e != "deref"]:
                return None
            l = p2["l"]
        elif rv["k"] == "ref":
            p2 = rv["pl"]
            if [e for e in p2.get("p", []) if e != "deref"]:
                return None
            l = p2["l"]
        else:
            return None
    return None


def _bool_origin_fields(fn, local):
    du = defuse(fn)
    out = []
    seen = set()
    work = [(local, 0)]
    while work:
        l, flips = work.pop()
        if (l, flips % 2) in seen:
            continue
        seen.add((l, flips % 2))
        for site, whole in du.defs.get(l, []):
            n = site.node
            if site.is_term:
                o, p = names(n)
                from cfg import identity_args
                ia = identity_args(n)
                if ia is not None:
                    for i in ia:
                        if i < len(n["args"]):
                            al = op_local(n["args"][i])
                            if al is not None:
                                for f in place_fields(op_place(n["args"][i])):
                                    out.append((f[0], f[1], flips % 2, site))
                                work.append((al, flips))
                elif o in ("core::cmp::PartialEq::eq", "core::cmp::PartialEq::ne"):
                    fl = flips + (1 if o.endswith("::ne") else 0)
                    for a in n["args"]:
                        al = op_local(a)
                        if al is not None:
                            for f in place_fields(op_place(a)):
                                out.append((f[0], f[1], fl % 2, site))
                            work.append((al, fl))
                        elif "c" in a:
                            out.append(("const", a["c"].get("v"), fl % 2, site))
                else:
                    out.append(("call", o or p, flips % 2, site))
                continue
            rv = n["rv"]
            k = rv["k"]
            if k == "un" and rv["op"] == "Not":
                al = op_local(rv["a"])
                if al is not None:
                    for f in place_fields(op_place(rv["a"])):
                        out.append((f[0], f[1], (flips + 1) % 2, site))
                    work.append((al, flips + 1))
            elif k in ("use", "cast"):
                p = op_place(rv["op"])
                if p is not None:
                    for f in place_fields(p):
                        out.append((f[0], f[1], flips % 2, site))
                    src = agg_field_source(fn, p) if p.get("p") else None
                    if src is not None:
                        sl = op_local(src)
                        if sl is not None:
                            for f in place_fields(op_place(src)):
                                out.append((f[0], f[1], flips % 2, site))
                            work.append((sl, flips))
                    else:
                        work.append((p["l"], flips))
            elif k in ("ref",):
                for f in place_fields(rv["pl"]):
                    out.append((f[0], f[1], flips % 2, site))
                work.append((rv["pl"]["l"], flips))
            elif k == "agg" and rv.get("variant") in ("Ok", "Some", "Continue") and len(rv["fields"]) == 1:
                # a bool wrapped by a (since inlined) helper's `Ok(b)` and unwrapped again by `?`
                o = rv["fields"][0]
                p = op_place(o)
                if p is not None:
                    for f in place_fields(p):
                        out.append((f[0], f[1], flips % 2, site))
                    work.append((p["l"], flips))
                elif "c" in o and o["c"].get("ty") == "bool":
                    out.append(("constval", bool(o["c"].get("v")), flips % 2, site))
            elif k == "discr":
                for f in place_fields(rv["pl"]):
                    out.append((f[0], f[1], flips % 2, site))
                work.append((rv["pl"]["l"], flips))
            elif k == "bin" and rv["op"] in ("Eq", "Ne"):
                fl = flips + (1 if rv["op"] == "Ne" else 0)
                for o in (rv["a"], rv["b"]):
                    p = op_place(o)
                    if p is not None:
                        for f in place_fields(p):
                            out.append((f[0], f[1], fl % 2, site))
                        work.append((p["l"], fl))
                    elif "c" in o:
                        out.append(("const", o["c"].get("v"), fl % 2, site))
    return out


def gate_edges(fn, adt, field, fx=None, weak=False):
    """All CFG edges (u,v,value) where u switches on a bool derived from `adt.field`
    (or, with adt == "call", from the boolean result of a call to `field`):
    value is the truth value of the *field* on that edge (negations folded in)."""
    cfg = cfg_of(fn)
    out = []
    hit_locals = {}
    for bi, b in enumerate(fn.blocks):
        if cfg.cleanup[bi] or b["term"]["k"] != "switch":
            continue
        if b["term"].get("op_ty") != "bool":
            continue   # discriminant switches (match, `?`) are not boolean gates
        reads = switch_field_reads(fn, bi)
        hit = [r for r in reads if r[0] == adt and r[1] == field]
        fx = fx or getattr(fn, "fx", None)
        if not hit and adt == "call" and fx is not None:
            # the bool comes from a combinator or workspace helper that (only) wraps the probe, e.g.
            # `found(p.metadata())?.is_some_and(|m| m.is_dir())`
            hit = [r for r in reads if r[0] == "call" and field in view_reach(fx, fn, [r[3].bb])]
        if not hit:
            continue
        # other inputs (calls, other fields) would make this a compound condition, which MIR never
        # produces for `a && b` (each conjunct gets its own switch)
        flip = hit[0][2]
        t = b["term"]
        explicit = {int(v): tb for v, tb in t["targets"]}
        if 0 in explicit:
            false_t, true_t = explicit[0], t["otherwise"]
        elif 1 in explicit:
            true_t, false_t = explicit[1], t["otherwise"]
        else:
            continue
        if flip:
            true_t, false_t = false_t, true_t
        # a constant that may also reach the operand (another arm of an inlined helper): the edge taken on that
        # constant says nothing about the field
        consts = set(bool(r[1]) ^ bool(r[2]) ^ bool(flip) for r in reads if r[0] == "constval")
        # (weak: the edge only has to exclude the *opposite* outcome of the test, which a constant does too)
        if weak or True not in consts:
            out.append((bi, true_t, True))
        if weak or False not in consts:
            out.append((bi, false_t, False))
        hit_locals[op_local(t["op"])] = flip
    if weak and hit_locals:
        # copies of the same switch that variant threading already resolved (the helper answered with a constant
        # on that path, e.g. `false` for a destination that does not exist): the resolved edge counts
        for bi, b in enumerate(fn.blocks):
            t = b["term"]
            ts = t.get("threaded_switch") if t["k"] == "goto" else None
            if isinstance(ts, dict) and ts.get("kind") == "bool" and ts.get("local") in hit_locals:
                val = bool(ts["val"]) ^ bool(hit_locals[ts["local"]])
                out.append((bi, t["target"], val))
    return out


def gated(fn, block, adt, field, want, fx=None, weak=False, _via_decision=True):
    """Is `block` reachable only through an edge on which adt.field == want?  (weak: ... on which the field
    cannot be `not want`: a helper's early `Ok(false)` for a missing file counts as "not the same file")"""
    cfg = cfg_of(fn)
    if block not in cfg.reachable():
        return True, "unreachable"
    edges = [(u, v) for (u, v, val) in gate_edges(fn, adt, field, fx, weak) if val == want]
    if not edges:
        return False, "no switch on %s.%s found" % (adt, field)
    r = cfg.reach([0], blocked_edges=edges)
    if block in r and _via_decision:
        # the test may have been taken earlier and its outcome *stored* (`placement = if dest.is_dir() && !opts.t
        # { Inside } else { Onto }` ... `match self.placement { Inside => dest.join(..) }`): the block depends on a
        # stored decision, and every assignment of the deciding value is itself gated
        dec = _stored_decision_sites(fn, block)
        if dec:
            res = [gated(fn, a, adt, field, want, fx, weak, _via_decision=False) for a in dec]
            if all(x[0] for x in res):
                return True, "control-dependent on a stored decision, every assignment of which is %s" % res[0][1]
    if block in r:
        return False, "reachable without passing %s.%s == %s" % (adt.split("::")[-1], field, want)
    # and not reachable on the wrong-polarity edge alone
    return True, "control-dependent on %s.%s == %s" % (adt.split("::")[-1], field, want)


def _flows_back(fn, l, want_struct_field=None, limit=400):
    """Backward walk from local l through moves, references, Ok/Some wrapping, `?` and payload projections.
    Yields (site, rvalue) of the aggregate / constant definitions reached."""
    from cfg import identity_args
    du = defuse(fn)
    seen, work, out = set(), [l], []
    while work and len(seen) < limit:
        x = work.pop()
        if x in seen:
            continue
        seen.add(x)
        for site, whole in du.defs.get(x, []):
            n = site.node
            if site.is_term:
                if n["k"] == "call":
                    o = (n.get("fn") or {}).get("orig")
                    ia = identity_args(n)
                    idx = ia if ia is not None else ([0] if o in ("core::ops::try_trait::Try::branch",) else [])
                    for i in idx:
                        if i < len(n["args"]) and op_local(n["args"][i]) is not None:
                            work.append(op_local(n["args"][i]))
                continue
            rv = n["rv"]
            if rv["k"] in ("use", "cast"):
                pl = op_place(rv["op"])
                if pl is not None:
                    pr = [e for e in pl.get("p", []) if e != "deref"]
                    if all(isinstance(e, dict) and ("dc" in e or (e.get("f") == 0 and "adt" not in e or
                           e.get("adt") in ("core::option::Option", "core::result::Result",
                                            "core::ops::control_flow::ControlFlow"))) for e in pr):
                        work.append(pl["l"])
                elif "c" in rv["op"]:
                    out.append((site, rv))
            elif rv["k"] == "ref":
                if not [e for e in rv["pl"].get("p", []) if e != "deref"]:
                    work.append(rv["pl"]["l"])
            elif rv["k"] == "agg":
                if rv.get("adt") in ("core::option::Option", "core::result::Result", "core::ops::control_flow::ControlFlow"):
                    if rv.get("variant") in ("Ok", "Some", "Continue"):
                        for o_ in rv["fields"]:
                            if op_local(o_) is not None:
                                work.append(op_local(o_))
                else:
                    out.append((site, rv))
    return out


def _stored_decision_sites(fn, block):
    """If `block` lies in one arm of a `match` on an enum value that was *assigned* elsewhere (directly, or as a
    field of a struct built elsewhere): the blocks where the deciding variant is assigned; else []."""
    cfg = cfg_of(fn)
    du = defuse(fn)
    out = None
    for u, b in enumerate(fn.blocks):
        t = b["term"]
        if b.get("cleanup") or t["k"] != "switch" or t.get("op_ty") != "isize":
            continue
        d = op_local(t["op"])
        ds = [s_ for s_, w_ in du.defs.get(d, []) if not s_.is_term and s_.node["rv"]["k"] == "discr"]
        if len(ds) != 1:
            continue
        rvd = ds[0].node["rv"]
        adt = rvd.get("adt") or ""
        if adt.split("::")[0] not in ("libxcp", "libfs", "xcp"):
            continue
        names = {int(v["val"]): v["name"] for v in rvd.get("variants", [])}
        # the arm the block lies in: the one target without which the block is unreachable
        arms = []
        tg = [(int(v), tb) for v, tb in t["targets"]]
        for v, tb in tg:
            if block not in cfg.reach([0], blocked_edges=[(u, tb)]) and block in cfg.reach([tb]):
                arms.append(names.get(v))
        if len(arms) != 1 or arms[0] is None:
            continue
        pl = rvd["pl"]
        fields = [e for e in pl.get("p", []) if isinstance(e, dict) and "f" in e]
        cands = []
        if not fields:
            srcs = _flows_back(fn, pl["l"])
            for site, rv in srcs:
                if rv["k"] == "agg" and rv.get("adt") == adt:
                    cands.append((site.bb, rv.get("variant")))
                else:
                    cands = None
                    break
        elif len(fields) == 1:
            cands = []
            for site, rv in _flows_back(fn, pl["l"]):
                if rv["k"] == "agg" and rv.get("adt") == fields[0].get("adt") and fields[0]["f"] < len(rv["fields"]):
                    fl = op_local(rv["fields"][fields[0]["f"]])
                    if fl is None:
                        cands = None
                        break
                    for s2, rv2 in _flows_back(fn, fl):
                        if rv2["k"] == "agg" and rv2.get("adt") == adt:
                            cands.append((s2.bb, rv2.get("variant")))
                        else:
                            cands = None
                            break
                    if cands is None:
                        break
                else:
                    cands = None
                    break
        if not cands:
            continue
        sites = [bb for bb, v in cands if v == arms[0]]
        if sites and len(set(v for bb, v in cands)) > 1:
            out = sorted(set(sites))
            break
    return out or []


# --------------------------------------------------------------------------
# provenance helpers
# --------------------------------------------------------------------------

def arg_origin_calls(fn, t, ai, table=None, through_agg=True):
    """Names of the (non identity-like) calls from which argument ai of call t derives, plus atoms."""
    a = t["args"][ai]
    l = op_local(a)
    if l is None:
        return set(), [], set()
    pv = Prov(fn, table=table, through_agg=through_agg)
    atoms, fields, seen = pv.origins(l)
    fields |= set(place_fields(op_place(a)))
    calls = set(x.what for x in atoms if x.kind == "call")
    return calls, atoms, fields


def view_reach(fx, v, blocks):
    """Callee names reached from the given blocks of a (possibly inlined) function body: the calls that sit in
    those blocks plus everything the workspace functions / closures they invoke can reach."""
    cg = callgraph(fx)
    seen = {}
    for bi in blocks:
        b = v.blocks[bi]
        if b.get("cleanup"):
            continue
        for s in b["stmts"]:
            rv = s["rv"]
            if rv["k"] == "agg" and rv.get("ak") == "closure":
                pass
        t = b["term"]
        if t["k"] != "call":
            continue
        f = t.get("fn") or {}
        if "indirect" in f:
            continue
        o, p = f.get("orig"), f.get("path")
        starts = []
        if p in fx.fns:
            seen.setdefault(p, [v.path, p])
            starts.append(p)
        else:
            seen.setdefault(o or p, [v.path, o or p])
            for impl in _virtual_impls(fx, o):
                starts.append(impl)
        for fv in f.get("fnvals", []):
            if fv in fx.fns:
                starts.append(fv)
        for st in starts:
            seen.setdefault(st, [v.path, st])
            for name, pth in cg.reach(st).items():
                seen.setdefault(name, [v.path] + pth)
    return seen


def _virtual_impls(fx, trait_item):
    if not trait_item or "::" not in trait_item:
        return []
    tr, meth = trait_item.rsplit("::", 1)
    return [p for p in fx.fns if p.startswith("<") and p.endswith(" as %s>::%s" % (tr, meth))]
