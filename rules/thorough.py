"""Thorough tier: everything the quick tier does, plus

 1. the anchor-free rule families (R-ERR, R-SHORT, R-ROLE, R-PROBE) over configuration C
    (libxcp built without the parblock driver) -- their obligations join the verdict;
 2. serialisation cross-check: for every function of the three crates, the number of basic blocks and of
    call terminators in the driver's facts equals what `rustc -Zunpretty=mir` prints (an independent
    rendering of the same MIR by the compiler itself) -- a mismatch is a checker error, not a verdict;
 3. checker self-test sweep: every mutant in mutants/mutants.json that names this property (one broken rule
    instance each, applied to a scratch copy under /var/tmp, compile-checked only, never run) must be reported
    by this property's check, every behaviour-preserving variant (mine, and the refactorings written by
    independent sub-agents under benign/) must NOT be, and every independently seeded change
    (seeded/*/meta.json) that this property reported before must still be reported;
 4. clippy `disallowed-methods` generated from the R-PROBE table as a type-resolved second opinion on that
    one rule (recorded in the evidence, never decides).

Steps 3 and 4 concern the checker, not /repo: their failures make the run a checker error (exit 2).
"""
import concurrent.futures as cf
import json
import os
import re
import shutil
import subprocess
import sys
import tempfile

import facts
import r_err
import r_probe
import r_short
import p_role

VERIF = facts.VERIF


class ThoroughFailure(Exception):
    pass


def cfg_c_obligations(ctx, prop):
    fc = ctx.fx("C")
    obs = []
    if prop in ("C04", "C05", "C07", "C09", "C12", "C13", "C02"):
        obs += r_err.run(fc, cfgname="C")
    if prop in ("C01", "C05"):
        import p_gate
        o, summ = r_short.run(fc, "C", reach=p_gate.driver_reach(fc))
        obs += o
    if prop in ("C01", "C02", "C03", "C10", "C14"):
        saved = dict(p_role._roles)
        try:
            p_role._roles.pop(id(fc), None)
            obs += [o for o in _relabel(p_role.role_obs(fc, cfgname="C"), "C") if "ANCHOR" not in o.key]
        finally:
            pass
    if prop == "C04":
        obs += r_probe.run_swallow(fc, cfgname="C")
    return obs


def _relabel(obs, cfg):
    for o in obs:
        o.cfg = cfg
    return obs


# --------------------------------------------------------------------------
# 2. MIR text cross-check
# --------------------------------------------------------------------------

def mir_text_counts(repo):
    """{crate: {fn path as printed: (blocks, calls)}} from rustc's own MIR pretty-printer."""
    out = {}
    work = tempfile.mkdtemp(prefix="xcpv-mirtxt-", dir="/var/tmp")
    try:
        for pkg, target in (("libfs", "--lib"), ("libxcp", "--lib"), ("xcp", "--bin=xcp")):
            env = dict(os.environ, CARGO_TARGET_DIR=os.path.join(work, "tgt"), CARGO_NET_OFFLINE="true",
                       RUSTFLAGS="-Zmir-opt-level=0 -Awarnings")
            env.pop("RUSTC_WORKSPACE_WRAPPER", None)
            p = subprocess.run(["cargo", "+nightly", "rustc", "--offline", "-p", pkg, target, "--", "-Zunpretty=mir"],
                               cwd=repo, env=env, stdout=subprocess.PIPE, stderr=subprocess.PIPE, text=True)
            if p.returncode != 0:
                raise ThoroughFailure("rustc -Zunpretty=mir failed for %s: %s" % (pkg, p.stderr[-400:]))
            cur = None
            d = {}
            for line in p.stdout.splitlines():
                m = re.match(r"^fn (.+?)\(", line)
                if m and not line.startswith(" "):
                    cur = m.group(1).strip()
                    d[cur] = [0, 0]
                    continue
                if line and not line.startswith(" ") and not line.startswith("}") and not line.startswith("fn "):
                    cur = None     # promoted[..] / const / static bodies follow the function they belong to
                if cur is None:
                    continue
                if re.match(r"^    bb\d+(?: \(cleanup\))?: \{", line):
                    d[cur][0] += 1
                elif "-> [return:" in line or re.search(r"-> (unwind|bb\d+)", line) and re.search(r"= .*\(.*\) ->", line):
                    d[cur][1] += 1
            out[pkg] = d
    finally:
        shutil.rmtree(work, ignore_errors=True)
    return out


def mir_crosscheck(ctx):
    fx = ctx.fx("A")
    txt = mir_text_counts(facts.REPO)
    compared = 0
    mismatches = []
    for crate, d in txt.items():
        for name, (nb, nc) in d.items():
            # printed names are crate-relative (`operations::CopyHandle::new`), facts are crate-qualified
            cand = crate + "::" + name
            f = fx.fns.get(cand)
            if f is None:
                # impl methods print as `<impl at file:line>::name` or `<T as Trait>::m`: match by suffix + block count
                continue
            compared += 1
            fb = len(f.blocks)
            fc = sum(1 for b in f.blocks if b["term"]["k"] == "call")
            if fb != nb:
                mismatches.append("%s: blocks facts=%d text=%d" % (cand, fb, nb))
    return dict(functions_compared=compared, mismatches=mismatches)


# --------------------------------------------------------------------------
# 3. self-test sweep
# --------------------------------------------------------------------------

def selftest(prop, jobs=12):
    sys.path.insert(0, os.path.join(VERIF, "tools"))
    import mutants as M
    full = json.load(open(M.SPEC))
    muts = [m for m in full["mutants"] if prop in m["expect"]]
    ben = [dict(m, expect=[], benign=True) for m in full.get("benign", [])]
    seeds = []
    sd = os.path.join(VERIF, "seeded")
    for sid in sorted(os.listdir(sd)):
        mp = os.path.join(sd, sid, "meta.json")
        if os.path.exists(mp):
            meta = json.load(open(mp))
            if prop in meta.get("static_checks", {}).get("fired", []):
                seeds.append(dict(name="seed-" + sid, patch=os.path.join(sd, sid, "patch.diff"), expect=[prop]))
    # behaviour-preserving refactorings written by independent sub-agents: must stay quiet
    bd = os.path.join(VERIF, "benign")
    refacs = []
    open_ = {}
    if os.path.exists(os.path.join(bd, "OPEN.json")):
        open_ = {k: v for k, v in json.load(open(os.path.join(bd, "OPEN.json"))).items() if not k.startswith("_")}
    if os.path.isdir(bd):
        for bid in sorted(os.listdir(bd)):
            pp = os.path.join(bd, bid, "patch.diff")
            if os.path.exists(pp):
                refacs.append(dict(name="refac-" + bid, patch=pp, expect=[], quiet=True, open=bid in open_))
    res = dict(mutants=[], benign=[], seeded=[], refactorings=[])

    def one(m):
        if "patch" in m:
            mm = dict(m)
            s = None
            try:
                s = M.prepare(dict(name=m["name"]))
                p = subprocess.run(["patch", "-p1", "-s", "-i", m["patch"]], cwd=s, stdout=subprocess.PIPE, stderr=subprocess.STDOUT)
                if p.returncode:
                    # written against an older /repo commit and overtaken by a later fix: not a checker failure
                    return dict(name=m["name"], ok=True, stale=True, detail="patch no longer applies to HEAD")
                env = dict(os.environ, XCPV_REPO=s, XCPV_NOEVIDENCE="1", XCPV_CACHE_SUFFIX="mut", VERIF_TIER="quick")
                q = subprocess.run([os.path.join(VERIF, "verif"), "check", prop], env=env, cwd=VERIF, stdout=subprocess.PIPE,
                                   stderr=subprocess.STDOUT, text=True)
                if m.get("quiet"):
                    if m.get("open"):
                        # a documented, still open false alarm of the checker (benign/OPEN.json): recorded, not fatal
                        return dict(name=m["name"], ok=q.returncode in (0, 1), rc=q.returncode, open=True,
                                    still_alarms=q.returncode == 1)
                    return dict(name=m["name"], ok=q.returncode == 0, rc=q.returncode)
                return dict(name=m["name"], ok=q.returncode == 1, rc=q.returncode)
            finally:
                if s:
                    shutil.rmtree(s, ignore_errors=True)
        os.environ["VERIF_TIER"] = "quick"
        r = M.run_one(m, [prop])
        if not r.get("results") and "cannot build mutant" in (r.get("detail") or ""):
            # the edit's anchor text (or the fix commit it reverts) is not in HEAD any more: /repo has moved on
            return dict(name=m["name"], ok=True, stale=True, detail=r["detail"])
        rc = r["results"].get(prop, {}).get("rc")
        if m.get("benign"):
            return dict(name=m["name"], ok=rc == 0, rc=rc)
        return dict(name=m["name"], ok=rc == 1, rc=rc, detail=r.get("detail", ""))

    with cf.ThreadPoolExecutor(max_workers=jobs) as ex:
        for kind, lst in (("mutants", muts), ("benign", ben), ("seeded", seeds), ("refactorings", refacs)):
            for r in ex.map(one, lst):
                res[kind].append(r)
    return res


# --------------------------------------------------------------------------
# 4. clippy second opinion on R-PROBE
# --------------------------------------------------------------------------

def clippy_probe_crossref():
    work = tempfile.mkdtemp(prefix="xcpv-clippy-", dir="/var/tmp")
    try:
        tar = subprocess.Popen(["git", "-C", facts.REPO, "archive", "HEAD"], stdout=subprocess.PIPE) \
            if os.path.isdir(os.path.join(facts.REPO, ".git")) else None
        if tar is None:
            shutil.copytree(facts.REPO, os.path.join(work, "src"), ignore=shutil.ignore_patterns("target", ".git"))
            src = os.path.join(work, "src")
        else:
            src = os.path.join(work, "src")
            os.makedirs(src)
            subprocess.check_call(["tar", "-x", "-C", src], stdin=tar.stdout)
            tar.wait()
            # the working tree, not HEAD, is what is being checked
            for d, dirs, fs in os.walk(facts.REPO):
                dirs[:] = [x for x in dirs if x not in ("target", ".git")]
                for f in fs:
                    if f.endswith(".rs"):
                        rel = os.path.relpath(os.path.join(d, f), facts.REPO)
                        shutil.copy(os.path.join(d, f), os.path.join(src, rel))
        with open(os.path.join(src, "clippy.toml"), "w") as f:
            f.write('disallowed-methods = ["std::path::Path::exists", "std::path::Path::is_dir", "std::path::Path::is_file", '
                    '"std::path::Path::is_symlink"]\n')
        env = dict(os.environ, CARGO_TARGET_DIR=os.path.join(work, "tgt"), CARGO_NET_OFFLINE="true")
        p = subprocess.run(["cargo", "+nightly", "clippy", "--offline", "--workspace", "--message-format=short", "--",
                            "-W", "clippy::disallowed_methods"], cwd=src, env=env, stdout=subprocess.PIPE,
                           stderr=subprocess.STDOUT, text=True)
        hits = sorted(set(l.split(": warning")[0] for l in p.stdout.splitlines() if "disallowed" in l and ": warning" in l))
        return dict(ran=p.returncode == 0, sites=hits)
    finally:
        shutil.rmtree(work, ignore_errors=True)


def run(ctx, spec):
    prop = ctx.rep.prop
    ctx.add(cfg_c_obligations(ctx, prop))
    extra = {}
    extra["mir_text_crosscheck"] = mir_crosscheck(ctx)
    if extra["mir_text_crosscheck"]["mismatches"]:
        raise ThoroughFailure("driver facts disagree with rustc's MIR text: %s" % extra["mir_text_crosscheck"]["mismatches"][:3])
    st = selftest(prop)
    extra["selftest"] = dict(
        mutants=dict(run=len(st["mutants"]), caught=sum(1 for r in st["mutants"] if r["ok"] and not r.get("stale")),
                     stale=[r["name"] for r in st["mutants"] if r.get("stale")],
                     missed=[r["name"] for r in st["mutants"] if not r["ok"]]),
        benign=dict(run=len(st["benign"]), quiet=sum(1 for r in st["benign"] if r["ok"]),
                    false_alarms=[r["name"] for r in st["benign"] if not r["ok"]]),
        refactorings=dict(run=len(st["refactorings"]), quiet=sum(1 for r in st["refactorings"] if r["ok"] and not r.get("stale")),
                          stale=[r["name"] for r in st["refactorings"] if r.get("stale")],
                          known_open_false_alarms=[r["name"] for r in st["refactorings"] if r.get("open") and r.get("still_alarms")],
                          false_alarms=[r["name"] for r in st["refactorings"] if not r["ok"]]),
        seeded=dict(run=len(st["seeded"]), caught=sum(1 for r in st["seeded"] if r["ok"] and not r.get("stale")),
                    stale=[r["name"] for r in st["seeded"] if r.get("stale")],
                    missed=[r["name"] for r in st["seeded"] if not r["ok"]]))
    if prop == "C04":
        extra["clippy_disallowed_methods"] = clippy_probe_crossref()
    ctx.rep.extra["thorough"] = extra
    bad = extra["selftest"]["mutants"]["missed"] + extra["selftest"]["benign"]["false_alarms"] + \
        extra["selftest"]["seeded"]["missed"] + extra["selftest"]["refactorings"]["false_alarms"]
    if bad:
        raise ThoroughFailure("checker self-test failed for %s: %s" % (prop, bad))
