"""Role views: the sequential code of one thread role (or of one function) as a single inlined CFG, and semantic
anchors inside it.  Rules that need context (gates, ordering, "this arm fails") are evaluated on views, and find
their anchors by *what the code does* (iterates a WalkDir, dispatches on Operation, builds a CopyHandle, switches
on Config.backup ...) rather than by function name, so that extracting, merging, renaming or moving helper
functions does not change a verdict."""
from cfg import cfg_of, defuse, place_fields, callee_orig, callee_path
import inline
import re
import q
from names import *

_cache = {}


def _reads_field(f, field):
    for b in f.blocks:
        for s in b["stmts"]:
            rv = s["rv"]
            if rv["k"] in ("discr", "ref", "use"):
                pl = rv.get("pl") or (rv.get("op", {}).get("cp") or rv.get("op", {}).get("mv"))
                if pl and place_fields(pl) and place_fields(pl)[-1] == (CONFIG, field):
                    return True
        t = b["term"]
        if t["k"] == "switch":
            pl = t["op"].get("cp") or t["op"].get("mv")
            if pl and place_fields(pl) and place_fields(pl)[-1] == (CONFIG, field):
                return True
    return False


def _mode_fns(fx, field):
    """Workspace functions that branch on Config.<field> (discriminant switch or == comparison), directly or
    through small accessor/helper functions (`config.reflink_mode()`): the semantic identity of `needs_backup` /
    `try_reflink` whatever they are called."""
    _fx_seen[id(fx)] = fx
    k = ("modefns", id(fx), field)
    if k in _cache:
        return _cache[k]
    direct = set(p for p, f in fx.fns.items() if not f.from_expansion and not f.is_closure and _reads_field(f, field))
    out = set(direct)
    if direct:
        cg = q.callgraph(fx)
        for p, f in fx.fns.items():
            if p in out or f.from_expansion or f.is_closure or f.crate != "libxcp":
                continue
            if not any(d in cg.reach(p) for d in direct):
                continue
            try:
                v = inline.inlined(fx, f, 2, stop=())
            except Exception:
                continue
            if _reads_field(v, field):
                out.add(p)
    _cache[k] = sorted(out)
    return _cache[k]


def _mode_fns_ext(fx, field):
    """_mode_fns plus the functions that branch on a decision value *derived* from the mode and stored (an enum
    chosen once per file from Config.reflink, matched later by the function that asks for the clone)."""
    k = ("modefns-ext", id(fx), field)
    if k in _cache:
        return _cache[k]
    out = set(_mode_fns(fx, field))
    if field == "reflink":
        import p_kinds
        der = p_kinds.derived_decisions(fx, field, p_kinds.REFLINK_ADT)
        if der:
            for p, f in fx.fns.items():
                if p in out or f.from_expansion or f.is_closure or f.crate != "libxcp":
                    continue
                for T in der:
                    if p_kinds.type_variant_switches(f, T) or p_kinds.enum_eq_edges_ty(f, T):
                        out.add(p)
                        break
    _cache[k] = sorted(out)
    return _cache[k]


def _returns_bool(f):
    """The function answers a yes/no question: a bool, or a workspace enum of two field-less variants
    (`ReflinkOutcome::{Cloned, NotCloned}`), possibly inside a Result."""
    ty = f.locals[0]["ty"]
    if ty == "bool" or ty.startswith("core::result::Result<bool,"):
        return True
    inner = ty
    if ty.startswith("core::result::Result<"):
        import expand
        head, ga = expand.split_generics(ty)
        inner = ga[0] if ga else ty
    fx = getattr(f, "fx", None)
    adts = getattr(fx, "adts", None) if fx is not None else None
    if adts is None:
        for fx_ in list(_fx_seen.values()):
            adts = fx_.adts
            break
    a = (adts or {}).get(inner)
    if a is None or a.get("kind") != "enum" or inner.split("::")[0] not in ("libxcp", "libfs", "xcp"):
        return False
    vs = a.get("variants", [])
    return len(vs) == 2 and all(not v.get("fields") for v in vs)


_fx_seen = {}


def stop_set(fx):
    k = ("stop", id(fx))
    if k in _cache:
        return _cache[k]
    import p_gate
    st = set(p_gate.identity_test_fns(fx))
    # decision functions (`needs_backup`, `try_reflink` whatever they are called): they branch on the mode and
    # answer with a bool; a function that merely reads the mode among other work (a constructor) is a helper
    # (the backup decision is *not* a boundary: its rules assume a mode and prune the inlined code instead)
    cg_ = q.callgraph(fx)
    for fld in ("reflink",):
        cands = [p_ for p_ in _mode_fns_ext(fx, fld) if _returns_bool(fx.fns[p_])]
        for p_ in cands:
            # only the outermost decision function is a boundary; helpers it delegates part of the decision to
            # (`reflink_unsupported()`) are inlined into its view
            if not any(p_ in cg_.reach(o_) for o_ in cands if o_ != p_):
                st.add(p_)
    # libfs's public functions are the primitives libxcp is written against
    for p, f in fx.fns.items():
        if f.crate == "libfs" and (f.raw.get("exported") or f.raw.get("reachable")) and not f.is_closure:
            # (a generic export that takes a callable -- `copy_data_segments(.., |n| ..)` -- is a control-flow helper,
            # not a primitive: it is inlined so that the closure runs in its caller's flow)
            if any(re.match(r"^(&mut |&)?[A-Z][A-Za-z0-9]*$", f.locals[i]["ty"]) for i in range(1, f.argc + 1)):
                continue
            st.add(p)
    # trait-object / driver entry points and the updater implementations are role boundaries, not helpers
    for p in fx.fns:
        if p.startswith("<") and (" as libxcp::drivers::CopyDriver>" in p or " as libxcp::feedback::StatusUpdater>" in p) \
                and not fx.fns[p].is_closure:
            st.add(p)
    _cache[k] = st
    return st


def view(fx, path, depth=9, extra_stop=(), threaded=True):
    f = fx.fn(path)
    if f is None:
        return None
    st = (stop_set(fx) | set(extra_stop)) - {path}
    k = ("view", id(fx), path, depth, tuple(sorted(extra_stop)), threaded)
    if k not in _cache:
        import thread
        v = inline.inlined(fx, f, depth, stop=tuple(sorted(st)))
        # closures that travel through generic helper parameters become known once the helper is inlined
        import expand as _expand
        for _round in range(3):
            changed = inline.resolve_closures(fx, v)
            v2 = _expand.expanded(fx, v)          # combinators whose callable has just become known
            if v2 is not v:
                changed = True
                v = v2
            if not changed:
                break
            v = inline.inlined(fx, v, depth, stop=tuple(sorted(st)))
        inline.resolve_closures(fx, v)
        _cache[k] = thread.threaded(v) if threaded else v
    return _cache[k]


def backup_mode_fn(fx):
    c = [p for p in _mode_fns(fx, "backup") if fx.fns[p].crate == "libxcp" and _returns_bool(fx.fns[p])]
    return c[0] if c else None


def reflink_mode_fn(fx):
    c = [p for p in _mode_fns_ext(fx, "reflink") if fx.fns[p].crate == "libxcp" and _returns_bool(fx.fns[p])]
    return c[0] if c else None


def roles(fx):
    """label -> entry function path."""
    k = ("roles", id(fx))
    if k in _cache:
        return _cache[k]
    import p_thread
    r, kinds = p_thread.thread_roles(fx)
    out = {}
    for name, entry in r.items():
        out[name] = entry
    for e in ENTRY_POINTS:
        if e in fx.fns:
            out[e] = e
    if DROP in fx.fns:
        out[DROP] = DROP
    _cache[k] = out
    return out


def role_views(fx, depth=9):
    k = ("rviews", id(fx), depth)
    if k in _cache:
        return _cache[k]
    out = {}
    for label, entry in roles(fx).items():
        v = view(fx, entry, depth)
        if v is not None:
            out[label] = v
    _cache[k] = out
    return out


def _has_call(v, pred):
    for bi, t in v.calls():
        if pred(t):
            return True
    return False


def find_views(fx, pred, depth=9):
    return [(lab, v) for lab, v in role_views(fx, depth).items() if pred(v)]


def walker_view(fx):
    """The role that iterates a walkdir iterator."""
    c = find_views(fx, lambda v: _has_call(v, lambda t: (callee_path(t) or "").startswith("<walkdir::") and
                                           callee_orig(t) == "core::iter::traits::iterator::Iterator::next"))
    # the walker closure is spawned once per driver; the views are identical up to the driver: take the first
    return c[0][1] if c else None


def walker_views(fx):
    return [v for lab, v in find_views(fx, lambda v: _has_call(v, lambda t: (callee_path(t) or "").startswith("<walkdir::") and
                                                              callee_orig(t) == "core::iter::traits::iterator::Iterator::next"))]


def worker_views(fx):
    """Roles that dispatch on the Operation enum: [(label, view)]."""
    import p_kinds
    return [(lab, v) for lab, v in role_views(fx).items() if p_kinds.type_variant_switches(v, OPERATION)
            and lab not in ENTRY_POINTS]


def main_view(fx):
    return view(fx, MAIN)


def drop_view(fx):
    return view(fx, DROP)


def handle_ctor_views(fx):
    """Views (of workers) containing the CopyHandle aggregate: where a handle is made."""
    out = []
    for lab, v in worker_views(fx):
        for bi, b in enumerate(v.blocks):
            if any(s["rv"]["k"] == "agg" and s["rv"].get("adt") == COPYHANDLE for s in b["stmts"]):
                out.append((lab, v))
                break
    return out


def label_of(lab):
    """Short stable label of a role for keys/messages: driver kind + role, independent of helper names."""
    if "parfile" in lab:
        d = "parfile"
    elif "parblock" in lab:
        d = "parblock"
    elif lab.startswith("xcp::"):
        d = "xcp"
    else:
        d = lab.split("::")[0]
    return d


def workers(fx):
    """[(label, view)] of the roles that dispatch on Operation, labelled by driver."""
    out = []
    for lab, v in worker_views(fx):
        out.append(("worker:" + label_of(lab), v))
    return sorted(out, key=lambda x: x[0])


def closure_views(fx):
    """Views of closures that are not thread roles (they run inside combinators of their parent)."""
    k = ("cviews", id(fx))
    if k in _cache:
        return _cache[k]
    rs = set(roles(fx).values())
    out = {}
    for p, f in fx.fns.items():
        if f.is_closure and p not in rs and f.crate in ("libxcp",) and not f.from_expansion:
            root = fx.fns.get(f.root)
            if root is not None and root.from_expansion:
                continue
            out[p] = view(fx, p, depth=5)
    _cache[k] = out
    return out


def all_views(fx):
    d = dict(role_views(fx))
    d.update(closure_views(fx))
    return d


def site(v, bi):
    t = v.blocks[bi]["term"]
    return (v.blocks[bi].get("origin", v.path), t["span"]["file"], t["span"]["line"], t["span"].get("col"))
