"""R-SHORT: every partial byte count is completed, checked or forwarded.

Primitives that may legally move fewer bytes than asked: copy_file_range,
pread, pwrite, Read::read, Write::write.  A workspace function is *partial* if
the count of a partial callee reaches its own return value outside a
completing loop.  At each call to a partial callee the Ok count n must be

  ACCUMULATED  added into an accumulator inside a loop whose continuation test
               compares that accumulator (retry until the request is complete)
  COMPARED     compared with another quantity, a branch of which fails
  FORWARDED    returned to the caller (who then carries the obligation)

A count that reaches none of these (only a progress update, a log call, or
nothing) is a violation: bytes can be missing on a success path.
"""
from cfg import cfg_of, defuse, Flow, Prov, op_local, op_place, callee_orig, callee_path
from engine import Ob, mkkey, anchor_ob
import q
import r_err
import r_order as ro
import re
from names import *

PRIMITIVES = {COPY_FILE_RANGE, PREAD, PWRITE, READ, WRITE}
COUNT_FLOW = {
    "core::option::Option::<T>::unwrap_or_else": [0],
    "core::result::Result::<T, E>::map": [0],
    "core::result::Result::<T, E>::map_err": [0],
    "core::option::Option::<T>::map": [0],
    "core::result::Result::<T, E>::unwrap": [0],
}
CMP = {"Lt", "Le", "Gt", "Ge", "Eq", "Ne"}
ADD = {"Add", "AddWithOverflow", "AddUnchecked"}


def _ret_locals_deep(fn):
    """Locals flowing into _0 by moves and by being wrapped in Ok/Some aggregates."""
    du = defuse(fn)
    out = {0}
    work = [0]
    while work:
        l = work.pop()
        for site, whole in du.defs.get(l, []):
            if site.is_term:
                continue
            rv = site.node["rv"]
            srcs = []
            if rv["k"] in ("use", "cast"):
                p = op_place(rv["op"])
                if p is not None and not [e for e in p.get("p", []) if e != "deref"]:
                    srcs.append(p["l"])
            elif rv["k"] == "agg" and rv.get("adt") in ("core::option::Option", "core::result::Result") \
                    and rv.get("variant") in ("Some", "Ok"):
                srcs += [op_local(o) for o in rv["fields"] if op_local(o) is not None]
            for s in srcs:
                if s not in out:
                    out.add(s)
                    work.append(s)
    return out


def classify_count(fx, f, bi, t):
    """Classes of what happens to the byte count returned by call t in block bi of f."""
    cfg = cfg_of(f)
    du = defuse(f)
    flow = Flow(f, table=COUNT_FLOW, through_agg=True, through_bin=False, through_field=True,
                skip_variants=("Break", "Err", "None"))
    tainted, parent = flow.run([t["dest"]["l"]])
    classes = set()
    details = []
    rl = _ret_locals_deep(f)
    # FORWARDED: the count itself (possibly wrapped in Ok/Some, not buried in another value) reaches the return value
    wrap = Flow(f, table=COUNT_FLOW, through_agg=True, through_bin=False, through_field=True,
                skip_variants=("Break", "Err", "None"),
                agg_filter=lambda rv: rv.get("adt") in ("core::option::Option", "core::result::Result",
                                                        "core::ops::control_flow::ControlFlow")
                or (rv.get("ak") == "adt" and len(rv.get("fields", [])) == 1 and
                    (rv.get("adt") or "").split("::")[0] in ("libfs", "libxcp")))      # `RangeCopy::Copied(n)`
    plain, _p = wrap.run([t["dest"]["l"]])
    fw = [l for l in plain if l in rl]
    # a callee whose *result* is returned directly (tail call) also forwards
    if fw:
        classes.add("FORWARDED")
        details.append("returned to the caller")
    loops = cfg.loops()
    # (a variant-threaded view holds the call's block in one copy per known-fact state: `src_block` names the original)
    copies = set(i_ for i_, b_ in enumerate(f.blocks) if b_.get("src_block", i_) == bi) or {bi}
    in_loops = [(h, body) for h, body in loops.items() if copies & body]
    sig = None
    for l in tainted:
        for site, how in du.uses.get(l, []):
            if site.is_term or how != "rv":
                continue
            rv = site.node["rv"]
            if rv["k"] != "bin":
                continue
            a, b = op_local(rv["a"]), op_local(rv["b"])
            other = b if a == l else a
            if rv["op"] in ADD:
                # acc = acc + n : find where the sum lands
                acc = _sum_target(f, site.node["lhs"]["l"])
                if acc is not None and other is not None and _same_var(f, other, acc):
                    for h, body in in_loops:
                        if _loop_tests(f, body, acc):
                            early = _early_exits(f, body, acc, tainted)
                            if early:
                                classes.add("ABANDONED")
                                details.append("the retry loop can be left on a short (non-zero) count at %s" % early[0])
                            else:
                                classes.add("ACCUMULATED")
                                details.append("added to `%s`, loop continues while it is short of the request"
                                               % f.name_of_local.get(acc, "_%d" % acc))
                                fol = _offset_follows_count(f, t, q.names(t)[1] or q.names(t)[0])
                                if fol is False:
                                    classes.add("STUCK-OFFSET")
                                    details.append("the retry is issued at the same file offset: what is still to be done is "
                                                   "transferred over what was done already")
                                cl = _bound_clamped(f, body, acc)
                                if cl:
                                    # the loop completes only min(request, cap): the caller still sees a short count
                                    classes.add("CLAMPED")
                                    details.append("the loop's bound is narrowed by `%s`: at most that much is completed" % cl)
                                callee = q.names(t)[1] or q.names(t)[0]
                                if not _zero_progress_exit(f, body, tainted, h) and callee not in NONZERO:
                                    classes.add("NO-ZERO-EXIT")
                    if "ACCUMULATED" not in classes:
                        details.append("added to `%s` but no enclosing loop tests it" % f.name_of_local.get(acc, "_%d" % acc))
            elif rv["op"] in CMP:
                if "c" in rv["a"] or "c" in rv["b"]:
                    continue    # comparison with a constant (zero-progress test), not a completeness check
                res = site.node["lhs"]["l"]
                for s2, h2 in du.uses.get(res, []):
                    if s2.is_term and h2 == "switch":
                        if sig is None:
                            sig = r_err.signal_blocks(f)
                        tg = set([b2 for _, b2 in s2.node["targets"]] + [s2.node["otherwise"]])
                        fails = [x for x in tg if x in sig or not any(r in cfg.reach([x], blocked=set(sig)) for r in cfg.returns)]
                        if fails:
                            classes.add("COMPARED")
                            details.append("compared with the requested length; the short branch fails")
    if not (classes & {"ACCUMULATED", "ABANDONED"}) and in_loops and _consumed_slice(f, t, tainted, in_loops):
        # the `write_all` idiom: what was written is cut off the front of the buffer (`buf = &buf[n..]`) and the loop
        # goes on while the buffer is not empty
        classes.add("ACCUMULATED")
        classes.discard("DROPPED")
        details.append("the count is cut off the front of the buffer; the loop continues while the buffer is not empty")
        callee = q.names(t)[1] or q.names(t)[0]
        for h, body in in_loops:
            if not _zero_progress_exit(f, body, tainted, h) and callee not in NONZERO:
                classes.add("NO-ZERO-EXIT")
    if "ABANDONED" in classes:
        classes.discard("ACCUMULATED")
    if not classes:
        classes.add("DROPPED")
        sinks = []
        for l in tainted:
            for site, how in du.uses.get(l, []):
                if not site.is_term and site.node["rv"]["k"] == "agg" and site.node["rv"].get("adt") == STATUS_UPDATE:
                    sinks.append("StatusUpdate::" + site.node["rv"]["variant"])
        details.append("the returned count is neither completed, checked nor returned" +
                       (" (it only feeds %s)" % sorted(set(sinks)) if sinks else ""))
    return classes, details


def _consumed_slice(f, t, tainted, in_loops):
    du = defuse(f)
    bufs = set()
    for a in t["args"]:
        l = op_local(a)
        if l is None:
            continue
        bufs.add(l)
        for site, w in du.defs.get(l, []):
            if not site.is_term and site.node["rv"]["k"] == "ref":
                bufs.add(site.node["rv"]["pl"]["l"])
    for l in tainted:
        for site, how in du.uses.get(l, []):
            if site.is_term or site.node["rv"]["k"] != "agg" or "RangeFrom" not in (site.node["rv"].get("adt") or ""):
                continue
            r = site.node["lhs"]["l"]
            for s2, h2 in du.uses.get(r, []):
                if not (s2.is_term and s2.node["k"] == "call" and "index" in (callee_path(s2.node) or callee_orig(s2.node) or "").lower()):
                    continue
                reach, work = set(), [s2.node["dest"]["l"]]
                while work:
                    x = work.pop()
                    if x in reach:
                        continue
                    reach.add(x)
                    for s3, h3 in du.uses.get(x, []):
                        if not s3.is_term and s3.node["rv"]["k"] in ("ref", "use") and not s3.node["lhs"].get("p"):
                            work.append(s3.node["lhs"]["l"])
                hit = reach & bufs
                if not hit:
                    continue
                for h, body in in_loops:
                    for bi in body:
                        tt = f.blocks[bi]["term"]
                        if tt["k"] == "call" and (callee_orig(tt) or "").endswith(("::is_empty", "::len")) and tt["args"]:
                            al = op_local(tt["args"][0])
                            srcs = {al}
                            for s4, w4 in du.defs.get(al, []):
                                if not s4.is_term and s4.node["rv"]["k"] == "ref":
                                    srcs.add(s4.node["rv"]["pl"]["l"])
                            if srcs & hit:
                                return True
    return False


def _early_exits(f, body, acc, tainted):
    """Edges leaving the retry loop other than (a) its own 'accumulator reached the request' test, (b) exits
    into failure, (c) a test of the count against the constant 0 (end of data).  Anything else abandons the
    request on a short count."""
    cfg = cfg_of(f)
    du = defuse(f)
    sig = r_err.signal_blocks(f)
    out = []
    for u in sorted(body):
        t = f.blocks[u]["term"]
        for v in cfg.succ[u]:
            if v in body:
                continue
            # (b) leads only to failure
            r = cfg.reach([v], blocked=set(sig))
            if v in sig or not any(x in r for x in cfg.returns):
                continue
            if t["k"] != "switch":
                continue
            l = op_local(t["op"])
            pl = op_place(t["op"])
            # (c) switch directly on the count value with an explicit 0 arm leading out
            if l in tainted and t.get("op_ty") not in ("bool", "isize"):
                zero = [tb for val, tb in t["targets"] if int(val) == 0]
                if zero and v in zero:
                    continue
            if t.get("op_ty") == "bool":
                # (a) / (c): which comparison drives it
                kind = None
                for site, whole in du.defs.get(l, []):
                    if site.is_term:
                        continue
                    rv = site.node["rv"]
                    if rv["k"] == "bin" and rv["op"] in CMP:
                        la, lb = op_local(rv["a"]), op_local(rv["b"])
                        if any(x is not None and _same_var(f, x, acc) for x in (la, lb)):
                            kind = "acc-test"
                        elif (la in tainted and "c" in rv["b"] and rv["b"]["c"].get("v") == 0) or \
                                (lb in tainted and "c" in rv["a"] and rv["a"]["c"].get("v") == 0):
                            kind = "zero-test"
                        elif la in tainted or lb in tainted:
                            kind = "short-test"
                if kind in ("acc-test", "zero-test"):
                    continue
                if kind == "short-test":
                    out.append("%s:%d" % (t["span"]["file"], t["span"]["line"]))
                    continue
            # discriminant switches (match arms) and drop flags: the exit itself is judged by where it leads;
            # an Ok-returning exit not justified above counts only if it is controlled by the count
            if t.get("op_ty") == "isize":
                continue
    return out


NONZERO = set()      # partial functions that fail rather than return a zero count


def _fails_on_zero(f, tainted):
    """Somewhere the count is tested against 0 and the zero branch only fails."""
    cfg = cfg_of(f)
    du = defuse(f)
    sig = r_err.signal_blocks(f)
    everything = set(range(len(f.blocks)))
    for u, b in enumerate(f.blocks):
        t = b["term"]
        if b.get("cleanup") or t["k"] != "switch":
            continue
        l = op_local(t["op"])
        if t.get("op_ty") not in ("bool", "isize") and l in tainted:
            for val, tb in t["targets"]:
                if int(val) == 0 and _only_fails(f, tb, set(), sig):
                    return True
        if t.get("op_ty") == "bool":
            for site, whole in du.defs.get(l, []):
                if site.is_term:
                    continue
                rv = site.node["rv"]
                if rv["k"] == "bin" and rv["op"] in CMP:
                    la, lb = op_local(rv["a"]), op_local(rv["b"])
                    ca, cb = rv["a"].get("c"), rv["b"].get("c")
                    if (la in tainted and cb is not None and cb.get("v") == 0) or (lb in tainted and ca is not None and ca.get("v") == 0):
                        for tb in set([b2 for _, b2 in t["targets"]] + [t["otherwise"]]):
                            if _only_fails(f, tb, set(), sig):
                                return True
    return False


def _zero_not_forwarded(f, tainted):
    """The count is tested against 0 and on the zero branch it is not what the function hands back (`Ok(0) =>
    RangeCopy::Eof`): callers never see a zero count from this function."""
    cfg = cfg_of(f)
    rl = _ret_locals_deep(f)
    fw = set()
    for bi, b in enumerate(f.blocks):
        if b.get("cleanup"):
            continue
        for s_ in b["stmts"]:
            rv = s_["rv"]
            if rv["k"] == "agg" and any(op_local(o_) in tainted for o_ in rv.get("fields", [])):
                fw.add(bi)
            elif rv["k"] == "use" and op_local(rv["op"]) in tainted and s_["lhs"]["l"] in rl:
                fw.add(bi)
    if not fw:
        return False
    for u, b in enumerate(f.blocks):
        t = b["term"]
        if b.get("cleanup") or t["k"] != "switch" or t.get("op_ty") in ("bool", "isize"):
            continue
        if op_local(t["op"]) in tainted:
            for val, tb in t["targets"]:
                if int(val) == 0 and tb != t["otherwise"] and not (fw & cfg.reach([tb])):
                    return True
    return False


def _zero_progress_exit(f, body, tainted, header=None):
    """The retry loop has a way out when the callee makes no progress (count == 0): a test of the count
    against 0 whose zero branch leaves the loop or fails. Without it a source that ends early spins forever."""
    cfg = cfg_of(f)
    du = defuse(f)
    sig = r_err.signal_blocks(f)

    def leaves(tb):
        if tb not in body or tb in sig:
            return True
        r = cfg.reach([tb], blocked=set(sig))
        # stays in the loop forever?  it leaves if it cannot come back to the loop header region without failing
        return not any(x in body for x in r if x != tb) and False

    def gone(tb):
        """From tb the loop is left for good: its header cannot be reached again (e.g. the zero count becomes an
        `Eof` variant that the caller's match turns into `break`)."""
        return header is not None and header not in cfg.reach([tb], blocked=set(sig))

    for u in sorted(body):
        t = f.blocks[u]["term"]
        if t["k"] != "switch":
            continue
        l = op_local(t["op"])
        if t.get("op_ty") not in ("bool", "isize") and l in tainted:
            for val, tb in t["targets"]:
                if int(val) == 0 and (tb not in body or _only_fails(f, tb, body, sig) or gone(tb)):
                    return True
        if t.get("op_ty") == "bool":
            for site, whole in du.defs.get(l, []):
                if site.is_term:
                    continue
                rv = site.node["rv"]
                if rv["k"] == "bin" and rv["op"] in CMP:
                    la, lb = op_local(rv["a"]), op_local(rv["b"])
                    ca, cb = rv["a"].get("c"), rv["b"].get("c")
                    if (la in tainted and cb is not None and cb.get("v") == 0) or (lb in tainted and ca is not None and ca.get("v") == 0):
                        for tb in set([b2 for _, b2 in t["targets"]] + [t["otherwise"]]):
                            if tb not in body or _only_fails(f, tb, body, sig) or gone(tb):
                                return True
    return False


def _only_fails(f, tb, body, sig):
    cfg = cfg_of(f)
    if tb in sig:
        return True
    r = cfg.reach([tb], blocked=set(sig))
    # every continuation from tb fails: no return and no way back into the loop's header
    return not any(x in cfg.returns for x in r) and not any(x in body and x != tb and cfg.can_reach(x, tb) for x in r if x in body and False)


def _sum_target(f, l):
    """x = (a + b) possibly via a checked-add tuple: follow `.0` and moves to the variable that receives the sum."""
    du = defuse(f)
    seen = set()
    work = [l]
    res = None
    while work:
        x = work.pop()
        if x in seen:
            continue
        seen.add(x)
        for site, how in du.uses.get(x, []):
            if site.is_term or how != "rv":
                continue
            rv = site.node["rv"]
            if rv["k"] in ("use", "cast"):
                tgt = site.node["lhs"]["l"]
                if f.name_of_local.get(tgt):
                    return tgt
                work.append(tgt)
    return res if res is not None else (l if f.name_of_local.get(l) else None)


def _same_var(f, a, b):
    if a == b:
        return True
    # `_8 = _4` style copies of the accumulator
    du = defuse(f)
    for site, whole in du.defs.get(a, []):
        if not site.is_term and site.node["rv"]["k"] == "use" and op_local(site.node["rv"]["op"]) == b:
            return True
    return False


def _loop_tests(f, body, acc):
    """Some switch inside the loop is driven by a comparison that reads the accumulator."""
    du = defuse(f)
    for bi in body:
        t = f.blocks[bi]["term"]
        if t["k"] != "switch" or t.get("op_ty") != "bool":
            continue
        l = op_local(t["op"])
        for site, whole in du.defs.get(l, []):
            if site.is_term:
                continue
            rv = site.node["rv"]
            if rv["k"] == "bin" and rv["op"] in CMP:
                for o in (rv["a"], rv["b"]):
                    ol = op_local(o)
                    if ol is not None and _same_var(f, ol, acc):
                        return True
    return False


NARROWING = ("core::cmp::min", "core::cmp::Ord::min", "core::cmp::Ord::clamp", "core::cmp::min_by", "core::cmp::min_by_key")


def _bound_clamped(f, body, acc):
    """The quantity the accumulator is compared with in the loop test is the result of min()/clamp(): the loop
    then completes a *narrowed* request, and what the function returns can be short of what it was asked for."""
    du = defuse(f)
    for bi in body:
        t = f.blocks[bi]["term"]
        if t["k"] != "switch" or t.get("op_ty") != "bool":
            continue
        l = op_local(t["op"])
        for site, whole in du.defs.get(l, []):
            if site.is_term:
                continue
            rv = site.node["rv"]
            if not (rv["k"] == "bin" and rv["op"] in CMP):
                continue
            la, lb = op_local(rv["a"]), op_local(rv["b"])
            if la is not None and _same_var(f, la, acc):
                other = lb
            elif lb is not None and _same_var(f, lb, acc):
                other = la
            else:
                continue
            seen = set()
            work = [other]
            while work:
                x = work.pop()
                if x is None or x in seen:
                    continue
                seen.add(x)
                for s2, w2 in du.defs.get(x, []):
                    if s2.is_term:
                        if s2.node["k"] == "call":
                            o, p_ = q.names(s2.node)
                            if o in NARROWING or p_ in NARROWING:
                                return (o or p_).split("::")[-1]
                        continue
                    r2 = s2.node["rv"]
                    if r2["k"] in ("use", "cast"):
                        work.append(op_local(r2["op"]))
    return None


# positional primitives / wrappers: index of the file-offset argument (by value; an `&mut` offset that the callee
# advances itself -- copy_file_range -- is not listed)
OFFSET_ARG = {PREAD: 2, PWRITE: 2, "libfs::common::read_bytes": 2, "libfs::common::write_bytes": 2,
              "libfs::linux::copy_file_offset": 3, "libfs::fallback::copy_file_offset": 3,
              "libfs::common::copy_range_uspace": 3}


def _offset_follows_count(f, t, callee):
    """In a completing loop around a positional call, the offset of the next call depends on the counts of the
    previous ones (`off + written`): otherwise the retry writes the rest of the data over the part already done."""
    ai = OFFSET_ARG.get(callee)
    if ai is None or ai >= len(t["args"]):
        return None
    ol = op_local(t["args"][ai])
    if ol is None:
        return False if "c" in t["args"][ai] else None
    flow = Flow(f, table=COUNT_FLOW, through_agg=True, through_bin=True, through_field=True,
                skip_variants=("Break", "Err", "None"))
    tn, _p = flow.run([t["dest"]["l"]])
    return ol in tn


FN_CALLS = ("core::ops::function::FnMut::call_mut", "core::ops::function::FnOnce::call_once", "core::ops::function::Fn::call")


def _helper_forwards(fx, g, _memo={}):
    """The generic helper hands the result of the callable it is given straight back (`retry_intr`), as opposed to
    completing it itself (`copy_chunks(n, fill, drain)` accumulates what `fill` returns until n is reached)."""
    k = (id(fx), g.path)
    if k not in _memo:
        res = False
        for bi, t in g.calls():
            if (q.names(t)[0] or "") not in FN_CALLS or t["dest"].get("p"):
                continue
            cls, det = classify_count(fx, g, bi, t)
            if "FORWARDED" in cls and not (cls & {"ACCUMULATED", "COMPARED"}):
                res = True
        _memo[k] = res
    return _memo[k]


def _sview(fx, f, _memo={}):
    k = (id(fx), f.path)
    if k not in _memo:
        try:
            import views
            _memo[k] = views.view(fx, f.path, depth=3, threaded=True) or f
        except Exception:
            _memo[k] = f
    return _memo[k]


def run(fx, cfgname="A", reach=None):
    """Returns (obs, partial summary)."""
    fns = list(ro.fns_in_scope(fx, crates=("libxcp", "libfs")))
    NONZERO.clear()
    partial = set(PRIMITIVES)
    site_cls = {}
    changed = True
    rounds = 0
    while changed and rounds < 10:
        changed = False
        rounds += 1
        for f in fns:
            for bi, t in f.calls():
                if q.span_excluded(t["span"]):
                    continue
                o, p = q.names(t)
                if o not in partial and p not in partial:
                    # a workspace helper that is handed a count-returning closure and answers with a count of the same
                    # kind (`retry_intr(|| pread(..))`): the closure's obligation continues at the helper's result
                    fvs = [x for x in (t.get("fn") or {}).get("fnvals", []) if x in partial]
                    if not (fvs and p in fx.fns and re.search(r"\b(usize|u64|isize|i64)\b", t.get("dest_ty") or "")
                            and _helper_forwards(fx, fx.fns[p])):
                        continue
                # classified on the function's inlined view (own block and local indices kept): a private helper
                # that checks or forwards the count (`nonzero(n)?`, `written_in_full(w, r)?`) is part of the flow
                fv = _sview(fx, f)
                cls, det = classify_count(fx, fv, bi, t)
                site_cls[(f.path, bi)] = (t, cls, det)
                if "FORWARDED" in cls:
                    flow = Flow(fv, table=COUNT_FLOW, through_agg=True, through_bin=False, through_field=True,
                                skip_variants=("Break", "Err", "None"))
                    tn, _p = flow.run([t["dest"]["l"]])
                    if (_fails_on_zero(fv, tn) or _zero_not_forwarded(fv, tn)) and f.path not in NONZERO:
                        NONZERO.add(f.path)
                        changed = True
                if ("FORWARDED" in cls and not (cls & {"ACCUMULATED", "COMPARED"})) or "CLAMPED" in cls:
                    if f.path not in partial:
                        partial.add(f.path)
                        changed = True
                    # a closure that forwards makes the combinator call in its parent a partial source
                    if f.is_closure and f.path not in partial:
                        partial.add(f.path)
                        changed = True
    obs = []
    zero_obs = []
    counters = {}
    for (fp, bi), (t, cls, det) in sorted(site_cls.items()):
        o = q.names(t)[0] or q.names(t)[1]
        n = counters.get((fp, o), 0)
        counters[(fp, o)] = n + 1
        ok = "DROPPED" not in cls and "ABANDONED" not in cls and "STUCK-OFFSET" not in cls
        if "NO-ZERO-EXIT" in cls:
            zero_obs.append((fp, o, n, t, reach is not None and (fp not in reach and fx.fns[fp].root not in reach)))
            cls = cls - {"NO-ZERO-EXIT"}
        f = fx.fns[fp]
        triv = reach is not None and (fp not in reach and f.root not in reach)
        ob = Ob("R-SHORT", mkkey("R-SHORT", fp, o, n), ok or triv, q.loc_of(t), fp,
                "count of %s: %s -- %s%s" % (o.split("::")[-1], "/".join(sorted(cls)), "; ".join(det)[:200],
                                              " [function not reachable from the drivers: listed only]" if triv and not ok else ""),
                None if ok else dict(callee=o, classes=sorted(cls)), trivial=triv, cfg=cfgname)
        obs.append(ob)
    summary = sorted(x for x in partial if x not in PRIMITIVES)
    run.zero_progress = []
    acc_sites = [(fp, bi) for (fp, bi), (t, cls, det) in site_cls.items() if "ACCUMULATED" in cls]
    bad = set((fp, o, n) for (fp, o, n, t, triv) in zero_obs)
    counters = {}
    for (fp, bi), (t, cls, det) in sorted(site_cls.items()):
        o = q.names(t)[0] or q.names(t)[1]
        n = counters.get((fp, o), 0)
        counters[(fp, o)] = n + 1
        if "ACCUMULATED" not in cls:
            continue
        okz = (fp, o, n) not in bad
        triv = reach is not None and (fp not in reach and fx.fns[fp].root not in reach)
        run.zero_progress.append(Ob("R-SHORT", mkkey("R-SHORT", fp, o, n, "zero-progress-exit"), okz or triv, q.loc_of(t), fp,
                                    "retry loop around %s %s when the callee makes no progress (count 0)" % (
                                        o.split("::")[-1], "ends or fails" if okz else "never ends: it spins"),
                                    None if okz else dict(callee=o), trivial=triv, cfg=cfgname))
    return obs, summary
