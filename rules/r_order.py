"""R-ORDER / R-WHO primitives: per-function CFG predicates over *effects*.
A block "performs" effect X when its call resolves to X or to a workspace
function from which X is reachable in the call graph (so helpers and wrappers
are followed, and a rule survives extracting code into a function)."""
from cfg import cfg_of
from engine import Ob, mkkey
import q
from r_err import in_scope_fn


def performers(fx, fn, X, direct_only=False):
    """Blocks of fn whose call performs X (a path or set of paths). Returns [(bi, term, how)]."""
    if isinstance(X, str):
        X = {X}
    X = set(X)
    cg = q.callgraph(fx)
    out = []
    for bi, t in fn.calls():
        if q.span_excluded(t["span"]):
            continue
        o, p = q.names(t)
        if o in X or p in X:
            out.append((bi, t, "direct"))
            continue
        if direct_only:
            continue
        # workspace callee (or closure / fn value passed to this call) that reaches X
        cands = []
        if p in fx.fns:
            cands.append(p)
        for fv in (t.get("fn") or {}).get("fnvals", []):
            if fv in fx.fns:
                cands.append(fv)
        for c in cands:
            r = cg.reach(c)
            hit = [x for x in X if x in r]
            if hit:
                out.append((bi, t, "via " + " -> ".join(r[hit[0]])))
                break
    return out


def fns_in_scope(fx, crates=None):
    for path in sorted(fx.fns):
        f = fx.fns[path]
        if crates and f.crate not in crates:
            continue
        if in_scope_fn(fx, f):
            yield f


def never_after(fx, A, B, rule, what, crates=None, cfgname="A", direct_only=False):
    """In every function performing both: no path from an A-performer to a B-performer."""
    obs = []
    for f in fns_in_scope(fx, crates):
        pa = performers(fx, f, A, direct_only)
        pb = performers(fx, f, B, direct_only)
        if not pa or not pb:
            continue
        cfg = cfg_of(f)
        n = 0
        for (ba, ta, ha) in pa:
            for (bb, tb, hb) in pb:
                if ba == bb:
                    continue
                bad = cfg.can_reach(ba, bb)
                key = mkkey(rule, f.path, "never_after", n, what)
                n += 1
                obs.append(Ob(rule, key, not bad, q.loc_of(tb), f.path,
                              "%s: %s (%s) %s follow %s (%s)" % (what, _nm(tb), q.loc_of(tb),
                                                                    "can" if bad else "cannot", _nm(ta), q.loc_of(ta)),
                              dict(first=q.loc_of(ta), then=q.loc_of(tb), path="bb%d ->* bb%d" % (ba, bb)) if bad else None,
                              cfg=cfgname))
    return obs


def _nm(t):
    o, p = q.names(t)
    return (p or o or "?").split("::")[-1]


def must_precede(fx, A, B, rule, what, crates=None, cfgname="A", direct_only=False, same_fn_required=True):
    """In every function performing B: every B-performer is dominated by an A-performer
    (A has completed on every path that reaches B)."""
    obs = []
    for f in fns_in_scope(fx, crates):
        pb = performers(fx, f, B, direct_only)
        if not pb:
            continue
        pa = performers(fx, f, A, direct_only)
        cfg = cfg_of(f)
        for n, (bb, tb, hb) in enumerate(pb):
            if bb not in cfg.reachable():
                continue
            cands = [ba for (ba, ta, ha) in pa if ba != bb]
            ok = bool(cands) and cfg.set_dominates(cands, bb)
            key = mkkey(rule, f.path, "must_precede", n, what)
            obs.append(Ob(rule, key, ok, q.loc_of(tb), f.path,
                          "%s: %s at %s is %sdominated by %s" % (what, _nm(tb), q.loc_of(tb), "" if ok else "NOT ",
                                                                  "/".join(sorted(A)) if not isinstance(A, str) else A),
                          None if ok else dict(target="bb%d" % bb, candidates=["bb%d" % x[0] for x in pa]),
                          cfg=cfgname))
    return obs


def callers_within(fx, X, allowed, rule, what, cfgname="A"):
    """Every workspace call site of X lies in an allowed context: an allowed function, an allowed arm
    (`fn@Variant`: the region of that worker's dispatch on Operation), or a private helper all of whose own
    call sites lie in allowed contexts (so extracting a helper is not a report, but moving the call into
    another arm or function is)."""
    cg = q.callgraph(fx)
    if isinstance(X, str):
        X = {X}
    allowed_fns = set(a for a in allowed if "@" not in a)
    allowed_blocks = set()
    for a in allowed:
        if "@" in a:
            w, var = a.split("@")
            import p_kinds
            f, regs = p_kinds.op_regions(fx, w)
            for b in regs.get(var, ()):
                allowed_blocks.add((w, b))
    obs = []

    def site_ok(fn, bi, seen):
        if fn.path in allowed_fns or (fn.path, bi) in allowed_blocks:
            return True
        # closures run where they are called/handed over: attribute to the parent's site
        if fn.path in seen:
            return True
        if fn.raw.get("exported") or fn.raw.get("reachable"):
            return False
        n = 0
        for c in sorted(cg.callers.get(fn.path, ())):
            g = fx.fns.get(c)
            if g is None or g.path == fn.path:
                continue
            for b2, t2 in g.calls():
                if q.names(t2)[1] == fn.path or fn.path in (t2["fn"].get("fnvals") or []):
                    n += 1
                    if not site_ok(g, b2, seen | {fn.path}):
                        return False
        return n > 0

    for x in sorted(X):
        for c in sorted(cg.callers.get(x, ())):
            f = fx.fns.get(c)
            if f is None or not in_scope_fn(fx, f):
                continue
            for n, (bi, t) in enumerate(q.calls_to(f, x)):
                ok = site_ok(f, bi, set())
                key = mkkey(rule, c, x, n, "caller")
                obs.append(Ob(rule, key, ok, q.loc_of(t), c,
                              "%s: %s at %s is %s" % (what, x.split("::")[-1], q.loc_of(t),
                                                      "in an allowed context" if ok else "NOT in an allowed context %s" % sorted(allowed)),
                              None if ok else dict(callee=x, caller=c, allowed=sorted(allowed)), cfg=cfgname))
    return obs


def region_forbids(fx, fn, blocks, forbidden, rule, what, cfgname="A", tag=""):
    """No call in `blocks` of fn reaches (transitively) a forbidden callee."""
    cg = q.callgraph(fx)
    r = cg.reach(fn.path, blocks=set(blocks))
    hits = sorted(x for x in forbidden if x in r)
    key = mkkey(rule, fn.path, "region_forbids", 0, tag or what)
    ok = not hits
    return [Ob(rule, key, ok, fn.loc(), fn.path,
               "%s: region of %d blocks reaches %s" % (what, len(blocks), "none of the forbidden callees" if ok else hits),
               None if ok else dict(paths={h: r[h] for h in hits}), cfg=cfgname)]


def gated_calls(fx, fnpath, callee, adt, field, want, rule, what, cfgname="A", require=1):
    """Every performer of `callee` in fn is control-dependent on adt.field == want."""
    f = fx.fn(fnpath)
    if f is None:
        from engine import anchor_ob
        return [anchor_ob(rule, "function " + fnpath, "facts", cfgname)]
    ps = performers(fx, f, callee)
    obs = []
    if len(ps) < require:
        from engine import anchor_ob
        return [anchor_ob(rule, "%s performs %s" % (fnpath, callee), "call graph", cfgname)]
    for n, (bi, t, how) in enumerate(ps):
        ok, why = q.gated(f, bi, adt, field, want)
        key = mkkey(rule, fnpath, callee if isinstance(callee, str) else "|".join(sorted(callee)), n, "gated:%s=%s" % (field, want))
        obs.append(Ob(rule, key, ok, q.loc_of(t), fnpath, "%s: %s %s" % (what, _nm(t), why),
                      None if ok else dict(block="bb%d" % bi, field=field, want=want), cfg=cfgname))
    return obs


# --------------------------------------------------------------------------
# failure regions
# --------------------------------------------------------------------------

def region_must_fail(fx, fn, start, rule, key, what, forbidden_blocks=(), cfgname="A", loc=""):
    """From block `start`, every path must hit a failure signal (Err into the return value,
    StatusUpdate::Error, divergence) before reaching a return or any of forbidden_blocks."""
    import r_err
    cfg = cfg_of(fn)
    sig = r_err.signal_blocks(fn)
    if start in sig:
        return Ob(rule, key, True, loc, fn.path, "%s: fails at once (%s)" % (what, sig[start]), cfg=cfgname)
    r = cfg.reach([start], blocked=set(sig))
    bad = [b for b in cfg.returns if b in r] + [b for b in forbidden_blocks if b in r]
    ok = not bad
    return Ob(rule, key, ok, loc, fn.path,
              "%s: %s" % (what, "every path fails (Err/Error update/panic)" if ok else
                          "a path reaches bb%d without a failure signal" % bad[0]),
              None if ok else dict(start="bb%d" % start, reaches=["bb%d" % b for b in bad], via=sorted(r)[:40]),
              cfg=cfgname)


def edge_target(fn, adt, field, want):
    """[(switch block, target)] of gate edges with the wanted polarity."""
    return [(u, v) for (u, v, val) in q.gate_edges(fn, adt, field) if val == want]
