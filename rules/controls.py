"""Controls, both directions, on every run: the fixtures crate is analysed by
the same driver; each rule family must report its `bad_*` constructs and stay
silent on the `good_*` twins."""
import r_err
import r_probe


def _by_fn(obs, prefix):
    out = {}
    for o in obs:
        if not o.fn.startswith(prefix):
            continue
        name = o.fn[len(prefix):].split("::")[0]
        out.setdefault(name, []).append(o)
    return out


def _judge(byfn, expect_bad, expect_good):
    problems = []
    fired = []
    for n in expect_bad:
        os_ = byfn.get(n, [])
        if not any(not o.ok for o in os_):
            problems.append("must-fire control `%s` was not reported" % n)
        else:
            fired.append(n)
    for n in expect_good:
        os_ = byfn.get(n, [])
        if not os_:
            problems.append("must-not-fire control `%s` produced no obligation (rule matched nothing)" % n)
        elif any(not o.ok for o in os_):
            problems.append("must-not-fire control `%s` was reported: %s" % (n, [o.what for o in os_ if not o.ok][:1]))
    return problems, fired


def c_r_err(ctx):
    fx = ctx.fx("F")
    saved = (r_err.SEND, r_err.STATUS_UPDATE)
    r_err.SEND, r_err.STATUS_UPDATE = "xcpv_fixtures::err::Updater::send", "xcpv_fixtures::err::Update"
    try:
        obs = r_err.run(fx, cfgname="F")
    finally:
        r_err.SEND, r_err.STATUS_UPDATE = saved
    byfn = _by_fn(obs, "xcpv_fixtures::err::")
    bad = ["bad_discard", "bad_log_only", "bad_ok", "bad_is_err", "bad_send_progress", "bad_param", "bad_retry",
           "bad_transformed_dropped", "bad_double"]
    good = ["good_propagate", "good_err_arm", "good_is_err", "good_send_error", "good_param", "good_panic",
            "good_transformed", "good_double"]
    return _judge(byfn, bad, good)


def c_r_probe(ctx):
    fx = ctx.fx("F")
    obs = r_probe.run_swallow(fx, cfgname="F")
    byfn = _by_fn(obs, "xcpv_fixtures::probe::")
    problems, fired = _judge(byfn, ["bad_blind_probe"], [])
    if byfn.get("good_fallible_probe"):
        problems.append("fallible probe was reported")
    return problems, fired


def c_r_order(ctx):
    import r_order as ro, q
    from names import SET_PERMISSIONS, FCHOWN
    fx = ctx.fx("F")
    obs = ro.never_after(fx, {SET_PERMISSIONS}, {FCHOWN}, "R-ORDER", "ctl", crates=("xcpv_fixtures",), cfgname="F")
    byfn = _by_fn(obs, "xcpv_fixtures::order::")
    problems, fired = _judge(byfn, ["bad_chown_after_chmod"], ["good_chown_before_chmod"])
    # gating polarity
    CF = "xcpv_fixtures::order::Cfg"
    for name, want_ok in (("good_chown_before_chmod", True), ("bad_gate_polarity", False), ("bad_ungated", False)):
        f = fx.fn("xcpv_fixtures::order::" + name)
        ps = ro.performers(fx, f, SET_PERMISSIONS)
        if not ps:
            problems.append("gating control %s: set_permissions not found" % name)
            continue
        ok, why = q.gated(f, ps[0][0], CF, "no_perms", False)
        if ok != want_ok:
            problems.append("gating control %s: got %s (%s)" % (name, ok, why))
        elif not ok:
            fired.append(name)
    return problems, fired


def c_r_role(ctx):
    import p_role
    fx = ctx.fx("F")
    saved = dict(p_role.SEEDS)
    p_role.SEEDS.clear()
    p_role.SEEDS[("xcpv_fixtures::role::entry", 1)] = p_role.SRC
    p_role.SEEDS[("xcpv_fixtures::role::entry", 2)] = p_role.DST
    import p_gate, names
    saved_entry = list(names.ENTRY_POINTS)
    p_gate.ENTRY_POINTS[:] = ["xcpv_fixtures::role::entry"]
    try:
        R = p_role.Roles(fx)
        R.fns = [f for f in fx.fns.values() if f.path.startswith("xcpv_fixtures::role::")]
        R.role = {}
        for k, v in p_role.SEEDS.items():
            R.role[k] = v
        R._solve()
        p_role._roles[id(fx)] = R
        obs = p_role.role_obs(fx, cfgname="F")
    finally:
        p_role.SEEDS.clear()
        p_role.SEEDS.update(saved)
        p_gate.ENTRY_POINTS[:] = saved_entry
        p_role._roles.pop(id(fx), None)
    byfn = _by_fn([o for o in obs if o.rule == "R-ROLE" and "ANCHOR" not in o.key], "xcpv_fixtures::role::")
    return _judge(byfn, ["bad_swapped"], ["good_copy"])


def c_r_short(ctx):
    import r_short, r_order as ro
    fx = ctx.fx("F")
    saved = ro.fns_in_scope
    def scope(fx_, crates=None):
        for f in fx_.fns.values():
            if f.path.startswith("xcpv_fixtures::short::"):
                yield f
    ro.fns_in_scope = scope
    try:
        obs, summ = r_short.run(fx, "F")
    finally:
        ro.fns_in_scope = saved
    byfn = _by_fn(obs, "xcpv_fixtures::short::")
    return _judge(byfn, ["bad_single_shot", "bad_write_once"], ["good_loop", "good_compare"])


CONTROLS = {"r_short": c_r_short, "r_role": c_r_role, "r_err": c_r_err, "r_probe": c_r_probe, "r_order": c_r_order}


def run(name, ctx):
    problems, fired = CONTROLS[name](ctx)
    return dict(control=name, ok=not problems, fired=fired, detail="; ".join(problems))
