"""Fact extraction and loading.

Runs the rustc_private driver (driver/) as RUSTC_WORKSPACE_WRAPPER under
`cargo +nightly check --offline` over /repo's *current working tree* with a
fresh CARGO_TARGET_DIR under /var/tmp (removed afterwards), and loads the JSON
fact base it writes.  Facts are cached under /verif/.cache/facts/<hash of the
tree + driver>, so every check of one tree state shares one extraction, and a
changed tree is always re-extracted.
"""
import hashlib
import json
import re
import os
import shutil
import subprocess
import sys
import tempfile
import time
import fcntl

VERIF = os.path.dirname(os.path.dirname(os.path.abspath(__file__)))
REPO = os.environ.get("XCPV_REPO", "/repo")
DRIVER = os.path.join(VERIF, "driver", "target", "release", "xcpv-driver")
CACHE = os.path.join(VERIF, ".cache", "facts" + os.environ.get("XCPV_CACHE_SUFFIX", ""))
SCRATCH = "/var/tmp"

# configuration -> (cwd relative to repo | absolute, cargo args, expected fact files)
CONFIGS = {
    # the shipped program: default features (parblock, use_linux)
    "A": dict(cwd=None, args=["check", "--workspace"],
              expect=["libfs-rlib", "libxcp-rlib", "xcp-executable"]),
    # build without the Linux backend (libfs/src/fallback.rs) -- named by C05
    # (libxcp depends on libfs with default features, so only libfs itself can be built this way)
    "B": dict(cwd=None, args=["check", "-p", "libfs", "--no-default-features"],
              expect=["libfs-rlib"]),
    # parblock compiled out
    # (xcp depends on libxcp with default features, so this is decided at the libxcp level)
    "C": dict(cwd=None, args=["check", "-p", "libxcp", "--no-default-features", "--features", "use_linux"],
              expect=["libfs-rlib", "libxcp-rlib"]),
    # controls: tiny crate of bad/good twins analysed by the same driver
    "F": dict(cwd=os.path.join(VERIF, "fixtures"), args=["check"], expect=["xcpv_fixtures-rlib"]),
}


def _sha_file(h, path):
    with open(path, "rb") as f:
        h.update(path.encode())
        h.update(b"\0")
        h.update(f.read())
        h.update(b"\0")


def tree_hash(cfg):
    """Hash of everything that can influence the facts of configuration cfg."""
    h = hashlib.sha256()
    h.update(cfg.encode())
    h.update(repr(CONFIGS[cfg]["args"]).encode())
    _sha_file(h, DRIVER)
    root = CONFIGS[cfg]["cwd"] or REPO
    files = []
    for d, dirs, fs in os.walk(root):
        dirs[:] = sorted(x for x in dirs if x not in ("target", ".git", "completions"))
        for f in sorted(fs):
            if f.endswith(".rs") or f in ("Cargo.toml", "Cargo.lock", "config.toml", "rust-toolchain.toml"):
                files.append(os.path.join(d, f))
    for p in files:
        _sha_file(h, p)
    return h.hexdigest()[:24]


def sysroot():
    return subprocess.check_output(["rustc", "+nightly", "--print", "sysroot"], text=True).strip()


class ExtractionError(Exception):
    pass


def extract(cfg, log=None):
    """Extract facts for cfg from the current tree; returns cache dir."""
    if not os.path.exists(DRIVER):
        raise ExtractionError("driver binary missing: run MANIFEST.setup_cmd (./verif setup)")
    key = tree_hash(cfg)
    dest = os.path.join(CACHE, cfg + "-" + key)
    os.makedirs(CACHE, exist_ok=True)
    lock = open(os.path.join(CACHE, ".lock-%s-%s" % (cfg, key)), "w")
    fcntl.flock(lock, fcntl.LOCK_EX)
    try:
        if os.path.exists(os.path.join(dest, "OK")):
            return dest
        conf = CONFIGS[cfg]
        nonce = hashlib.sha256(os.urandom(16)).hexdigest()[:16]
        work = tempfile.mkdtemp(prefix="xcpv-%s-" % cfg, dir=SCRATCH)
        out = os.path.join(work, "out")
        os.makedirs(out)
        env = dict(os.environ)
        env.update(
            LD_LIBRARY_PATH=os.path.join(sysroot(), "lib"),
            RUSTFLAGS="-Zmir-opt-level=0 -Awarnings",
            RUSTC_WORKSPACE_WRAPPER=DRIVER,
            CARGO_TARGET_DIR=os.path.join(work, "tgt"),
            CARGO_NET_OFFLINE="true",
            XCPV_OUT=out,
            XCPV_NONCE=nonce,
            XCPV_CFG=cfg,
        )
        env.pop("RUSTC_WRAPPER", None)
        t0 = time.time()
        try:
            p = subprocess.run(
                ["cargo", "+nightly"] + conf["args"] + ["--offline"],
                cwd=conf["cwd"] or REPO, env=env, stdout=subprocess.PIPE, stderr=subprocess.STDOUT, text=True)
            if p.returncode != 0:
                raise ExtractionError("cargo check failed for cfg %s (the tree does not compile?):\n%s"
                                      % (cfg, p.stdout[-4000:]))
            got = sorted(f[:-5] for f in os.listdir(out) if f.endswith(".json"))
            missing = [e for e in conf["expect"] if e not in got]
            if missing:
                raise ExtractionError("driver wrote no facts for %s in cfg %s (got %s)" % (missing, cfg, got))
            tmpdest = dest + ".tmp%d" % os.getpid()
            shutil.rmtree(tmpdest, ignore_errors=True)
            os.makedirs(tmpdest)
            for e in conf["expect"]:
                with open(os.path.join(out, e + ".json")) as f:
                    d = json.load(f)
                if d.get("nonce") != nonce:
                    raise ExtractionError("stale fact file %s: nonce mismatch" % e)
                shutil.copy(os.path.join(out, e + ".json"), os.path.join(tmpdest, e + ".json"))
            with open(os.path.join(tmpdest, "OK"), "w") as f:
                json.dump(dict(nonce=nonce, cfg=cfg, key=key, wall_s=round(time.time() - t0, 2)), f)
            shutil.rmtree(dest, ignore_errors=True)
            os.rename(tmpdest, dest)
        finally:
            shutil.rmtree(work, ignore_errors=True)
        _prune_cache(cfg, keep=dest)
        return dest
    finally:
        fcntl.flock(lock, fcntl.LOCK_UN)
        lock.close()


def _prune_cache(cfg, keep, maxn=400, max_age_s=6 * 3600):
    """Drop cache entries that are old, or beyond a generous count (parallel self-test runs share the cache)."""
    ents = [os.path.join(CACHE, e) for e in os.listdir(CACHE) if e.startswith(cfg + "-") and ".tmp" not in e]
    ents = [e for e in ents if e != keep]

    def mt(e):
        try:
            return os.path.getmtime(e)
        except OSError:         # removed by a concurrent run
            return 0.0
    times = {e: mt(e) for e in ents}
    ents.sort(key=lambda e: times[e])
    now = time.time()
    drop = [e for e in ents if now - times[e] > max_age_s]
    rest = [e for e in ents if e not in drop]
    if len(rest) > maxn:
        drop += rest[:-maxn]
    for e in drop:
        shutil.rmtree(e, ignore_errors=True)


# --------------------------------------------------------------------------
# model
# --------------------------------------------------------------------------

class Fn:
    __slots__ = ("raw", "path", "crate", "kind", "blocks", "locals", "argc", "span", "root", "debug",
                 "_cfg", "captures", "name_of_local", "inlined_from", "n_own", "fx")

    def __init__(self, raw, crate):
        self.raw = raw
        self.path = raw["path"]
        self.crate = crate
        self.kind = raw["kind"]
        self.blocks = raw["blocks"]
        self.locals = raw["locals"]
        self.argc = raw["argc"]
        self.span = raw["span"]
        self.root = raw.get("root", self.path)
        self.debug = raw.get("debug", [])
        self.captures = raw.get("captures", [])
        self._cfg = None
        self.fx = None
        self.name_of_local = {}
        for d in self.debug:
            pl = d["pl"]
            if not pl.get("p"):
                self.name_of_local.setdefault(pl["l"], d["name"])

    @property
    def is_closure(self):
        return self.kind == "Closure"

    @property
    def from_expansion(self):
        return bool(self.span.get("exp"))

    def loc(self):
        return "%s:%d" % (self.span["file"], self.span["line"])

    def calls(self, include_cleanup=False):
        """Yield (block_index, terminator) for every Call terminator."""
        for i, b in enumerate(self.blocks):
            if b.get("cleanup") and not include_cleanup:
                continue
            t = b["term"]
            if t["k"] == "call":
                yield i, t

    def __repr__(self):
        return "<Fn %s>" % self.path


class Facts:
    """All crates of one configuration."""

    def __init__(self, cfg, crates):
        self.cfg = cfg
        self.crates = crates            # name -> raw json
        self.fns = {}                   # path -> Fn
        for cname, c in crates.items():
            for raw in c["fns"]:
                f = Fn(raw, cname)
                f.fx = self
                self.fns[f.path] = f
        self.adts = {}
        for c in crates.values():
            for a in c["adts"]:
                self.adts[a["path"]] = a
        self.impls = []
        for cname, c in crates.items():
            for i in c["impls"]:
                i = dict(i)
                i["crate"] = cname
                self.impls.append(i)
        self.mods = {}
        for c in crates.values():
            for m in c.get("mods", []):
                self.mods[m["path"]] = m

    def fn(self, path):
        return self.fns.get(path)

    def product_fns(self):
        """Functions written in the repository (not produced by derive/clap expansions)."""
        return [f for f in self.fns.values() if not f.from_expansion or f.is_closure and not self.fns.get(f.root, f).from_expansion]

    def closures_of(self, path):
        return [f for f in self.fns.values() if f.is_closure and f.root == path]

    def counts(self):
        nb = sum(len(f.blocks) for f in self.fns.values())
        nc = sum(1 for f in self.fns.values() for _ in f.calls())
        return dict(functions=len(self.fns), blocks=nb, call_sites=nc)


_loaded = {}


API_TYPES = [
    ("libxcp", "Config", "libxcp::config::Config"), ("libxcp", "Operation", "libxcp::operations::Operation"),
    ("libxcp", "CopyHandle", "libxcp::operations::CopyHandle"), ("libxcp", "StatusUpdate", "libxcp::feedback::StatusUpdate"),
    ("libxcp", "XcpError", "libxcp::errors::XcpError"), ("libxcp", "Reflink", "libxcp::config::Reflink"),
    ("libxcp", "Backup", "libxcp::config::Backup"), ("xcp", "Opts", "xcp::options::Opts"),
    ("libfs", "Extent", "libfs::Extent"), ("libfs", "FileType", "libfs::FileType"),
]
API_TRAITS = [("libxcp", "StatusUpdater", "libxcp::feedback::StatusUpdater"), ("libxcp", "CopyDriver", "libxcp::drivers::CopyDriver")]


LIBFS_COMMON_FNS = ("allocate_file", "copy_file", "copy_owner", "copy_permissions", "copy_timestamps", "is_same_file",
                    "merge_extents", "sync", "copy_xattr", "read_bytes", "write_bytes", "copy_range_uspace", "copy_bytes_uspace")
LIBFS_BACKEND_FNS = ("copy_file_bytes", "copy_file_offset", "copy_node", "copy_sparse", "probably_sparse", "next_sparse_segments",
                     "map_extents", "reflink", "try_copy_file_range", "lseek", "fiemap")


def _fn_aliases(j):
    """libfs functions the rules name by path: one that keeps its name but moves to another module of the crate
    (`common.rs` split into `metadata.rs`, `linux.rs` into `linux/extents.rs`) is the same function."""
    if j.get("crate") != "libfs":
        return []
    free = [f["path"] for f in j.get("fns", []) if f.get("kind") in ("Fn", None) and "<" not in f["path"] and "{" not in f["path"]]
    out = []
    # what the crate root offers under an API name, wherever (and under whatever name) it is defined:
    # `pub use crate::common::sparse_by_block_count as probably_sparse`
    backend = "fallback" if any(p_.startswith("libfs::fallback::") for p_ in free) and \
        not any(p_.startswith("libfs::linux::") for p_ in free) else "linux"
    for rx in j.get("reexports", []):
        if rx.get("module") != "libfs" or rx.get("kind") != "Fn":
            continue
        name, tgt = rx.get("name"), rx.get("target")
        if name in LIBFS_COMMON_FNS:
            canon = "libfs::common::" + name
        elif name in LIBFS_BACKEND_FNS:
            canon = "libfs::%s::%s" % (backend, name)
        else:
            continue
        if tgt != canon and canon not in free and tgt in free and tgt.startswith("libfs::"):
            out.append((tgt, canon))
    done = set(c for t_, c in out)
    for name in LIBFS_COMMON_FNS + LIBFS_BACKEND_FNS:
        cands = [p_ for p_ in free if p_.split("::")[-1] == name and p_.startswith("libfs::")]
        for backend in ("linux", "fallback"):
            if name in LIBFS_COMMON_FNS:
                mine = [p_ for p_ in cands if "::linux" not in p_ and "::fallback" not in p_]
                canon = "libfs::common::" + name
            else:
                mine = [p_ for p_ in cands if p_.startswith("libfs::%s::" % backend) or p_ == "libfs::%s::%s" % (backend, name)]
                canon = "libfs::%s::%s" % (backend, name)
                if not mine and backend == "linux" and "::fallback" not in "".join(cands) and \
                        any(f_.startswith("libfs::linux::") for f_ in free):
                    mine = [p_ for p_ in cands if "::fallback" not in p_]
            if canon in free or canon in done or len(mine) != 1:
                continue
            out.append((mine[0], canon))
            if name in LIBFS_COMMON_FNS:
                break
    return out


def _api_aliases(crate_jsons):
    out = []
    for j in crate_jsons:
        cr = j.get("crate")
        out += _fn_aliases(j)
        paths = [a["path"] for a in j.get("adts", [])]
        for c_, name, canon in API_TYPES:
            if c_ != cr or canon in paths:
                continue
            cands = [p_ for p_ in paths if p_.startswith(cr + "::") and p_.split("::")[-1] == name]
            if len(cands) == 1:
                out.append((cands[0], canon))
        traits = set(i.get("trait") for i in j.get("impls", []) if i.get("trait"))
        for c_, name, canon in API_TRAITS:
            if c_ != cr or canon in traits:
                continue
            cands = [t_ for t_ in traits if t_.startswith(cr + "::") and t_.split("::")[-1] == name]
            if len(cands) == 1:
                out.append((cands[0], canon))
    # longest first, so that a path is not rewritten through a prefix of another
    return sorted(set(out), key=lambda x: -len(x[0]))


BUILDER_SPAWN = ("std::thread::builder::Builder::spawn", "std::thread::Builder::spawn")


# the same system call under another library name: presented to the rules under the name they are written in
# (same argument order unless a remap is given)
PRIM_ALIASES = {
    "std::os::unix::fs::FileExt::read_at": "rustix::io::read_write::pread",
    "std::os::unix::fs::FileExt::write_at": "rustix::io::read_write::pwrite",
    "rustix::fs::fd::fchmod": "std::fs::File::set_permissions",
    "rustix::fs::fd::fchown": "std::os::unix::fs::fchown",
    "rustix::fs::fd::futimens": "std::fs::File::set_times",
    "std::fs::File::set_len": "rustix::fs::fd::ftruncate",
    "std::fs::File::sync_all": "rustix::fs::fd::fsync",
    "rustix::fs::xattr::fsetxattr": "xattr::FileExt::set_xattr",       # (+ a flags argument, checked by C10)
    "rustix::fs::xattr::fgetxattr": "xattr::FileExt::get_xattr",
    "rustix::fs::xattr::flistxattr": "xattr::FileExt::list_xattr",
}
FICLONE_REQ = 0x40049409
FIEMAP_REQ = 0xC020660B
LIBC_IOCTL = "libc::unix::linux_like::linux::ioctl"


def _normalise_calls(j):
    """`thread::Builder::new().name(n).spawn(f)` starts a thread exactly as `thread::spawn(f)` does (the result is
    an io::Result around the same JoinHandle): the call is presented to the rules as the latter, without the
    builder argument.  The `?`/match on its result is ordinary control flow."""
    for f in j.get("fns", []):
        for b in f.get("blocks", []):
            t = b.get("term") or {}
            if t.get("k") != "call":
                continue
            fn_ = t.get("fn") or {}
            o_ = fn_.get("orig")
            if o_ in PRIM_ALIASES:
                fn_["orig_alias_of"] = o_
                fn_["orig"] = PRIM_ALIASES[o_]
                fn_["path"] = PRIM_ALIASES[o_]
            elif o_ == "rustix::fs::ioctl::ioctl_ficlone" and len(t.get("args", [])) == 2:
                # ioctl_ficlone(dst, src) == ioctl(dst, FICLONE, src), answered as a Result instead of a status
                fn_["orig_alias_of"] = o_
                fn_["orig"] = fn_["path"] = LIBC_IOCTL
                t["args"] = [t["args"][0], {"c": {"ty": "u64", "v": FICLONE_REQ}}, t["args"][1]]
                if t.get("arg_tys"):
                    t["arg_tys"] = [t["arg_tys"][0], "u64", t["arg_tys"][1]]
            elif o_ == "rustix::ioctl::ioctl" and len(t.get("args", [])) == 2 and str(FIEMAP_REQ) in " ".join(t.get("arg_tys") or []):
                fn_["orig_alias_of"] = o_
                fn_["orig"] = fn_["path"] = LIBC_IOCTL
                t["args"] = [t["args"][0], {"c": {"ty": "u64", "v": FIEMAP_REQ}}, t["args"][1]]
                t["arg_tys"] = [t["arg_tys"][0], "u64", t["arg_tys"][1]]
            if (fn_.get("orig") in BUILDER_SPAWN or fn_.get("path") in BUILDER_SPAWN) and len(t.get("args", [])) == 2:
                fn_["orig_builder"] = fn_.get("orig")
                fn_["orig"] = "std::thread::functions::spawn"
                fn_["path"] = "std::thread::functions::spawn"
                t["args"] = t["args"][1:]
                if t.get("arg_tys"):
                    t["arg_tys"] = t["arg_tys"][1:]
                t["spawn_via_builder"] = True


def _bypass_api_wrappers(crates):
    """libfs exporting `pub fn map_extents(fd) { Native::map_extents(fd) }` (a thin wrapper in lib.rs over a backend
    trait or module) instead of `pub use backend::map_extents`: calls of the wrapper are presented as calls of the
    backend function it forwards to, which is then the exported primitive the rules are written against."""
    lf = crates.get("libfs")
    if lf is None:
        return
    paths = set(f["path"] for f in lf.get("fns", []))
    byp = {}
    for name in LIBFS_COMMON_FNS + LIBFS_BACKEND_FNS:
        w = "libfs::" + name
        if w not in paths:
            continue
        for canon in ("libfs::linux::" + name, "libfs::fallback::" + name, "libfs::common::" + name):
            if canon in paths:
                byp[w] = canon
                break
    if not byp:
        return
    for f in lf.get("fns", []):
        if f["path"] in byp.values():
            f["exported"] = True
    for j in crates.values():
        for f in j.get("fns", []):
            if f["path"] in byp:
                continue
            for b in f.get("blocks", []):
                t = b.get("term") or {}
                if t.get("k") == "call":
                    fn_ = t.get("fn") or {}
                    if fn_.get("path") in byp:
                        fn_["via_wrapper"] = fn_["path"]
                        fn_["path"] = byp[fn_["path"]]
                        if fn_.get("orig") in byp:
                            fn_["orig"] = byp[fn_["orig"]]


def load(cfg="A"):
    if cfg in _loaded:
        return _loaded[cfg]
    d = extract(cfg)
    crates = {}
    texts = {}
    for e in CONFIGS[cfg]["expect"]:
        with open(os.path.join(d, e + ".json")) as f:
            texts[e] = f.read()
    # canonical paths of the public API types the rules are written against: a type that keeps its name but is
    # moved to another (private) module and re-exported is the same type
    alias = _api_aliases([json.loads(t) for t in texts.values()])
    for e, t in texts.items():
        for cand, canon in alias:
            t = re.sub(re.escape(cand) + r"(?![A-Za-z0-9_])", canon, t)
        j = json.loads(t)
        _normalise_calls(j)
        crates[j["crate"]] = j
    _bypass_api_wrappers(crates)
    fx = Facts(cfg, crates)
    with open(os.path.join(d, "OK")) as f:
        fx.meta = json.load(f)
    _loaded[cfg] = fx
    return fx


# --------------------------------------------------------------------------
# pretty printer (debugging aid: ./verif dump <fn-substring>)
# --------------------------------------------------------------------------

def fmt_place(p, fn=None):
    s = "_%d" % p["l"]
    if fn is not None and p["l"] in fn.name_of_local:
        s += "<%s>" % fn.name_of_local[p["l"]]
    for e in p.get("p", []):
        if e == "deref":
            s = "(*%s)" % s
        elif isinstance(e, dict) and "f" in e:
            s += ".%s" % (e.get("n") or e["f"])
        elif isinstance(e, dict) and "dc" in e:
            s = "(%s as %s)" % (s, e["dc"])
        elif isinstance(e, dict) and "idx" in e:
            s += "[_%d]" % e["idx"]
        else:
            s += ".<%s>" % e
    return s


def fmt_op(o, fn=None):
    if "cp" in o:
        return fmt_place(o["cp"], fn)
    if "mv" in o:
        return "move " + fmt_place(o["mv"], fn)
    if "c" in o:
        c = o["c"]
        if "fn" in c:
            return "fn:" + c["fn"]["path"]
        if "closure" in c:
            return "closure:" + c["closure"]
        if "s" in c:
            return "const %r" % c["s"]
        if "v" in c:
            return "const %s_%s" % (c["v"], c["ty"])
        return "const<%s>" % c["ty"]
    return "?"


def fmt_rv(rv, fn=None):
    k = rv["k"]
    if k == "use":
        return fmt_op(rv["op"], fn)
    if k == "ref":
        return ("&mut " if rv["mut"] else "&") + fmt_place(rv["pl"], fn)
    if k == "rawptr":
        return "&raw " + fmt_place(rv["pl"], fn)
    if k == "cast":
        return "%s as %s (%s)" % (fmt_op(rv["op"], fn), rv["ty"], rv["ck"])
    if k == "bin":
        return "%s(%s, %s)" % (rv["op"], fmt_op(rv["a"], fn), fmt_op(rv["b"], fn))
    if k == "un":
        return "%s(%s)" % (rv["op"], fmt_op(rv["a"], fn))
    if k == "discr":
        return "discriminant(%s)" % fmt_place(rv["pl"], fn)
    if k == "agg":
        fs = ", ".join(fmt_op(f, fn) for f in rv["fields"])
        if rv["ak"] == "adt":
            return "%s::%s{%s}" % (rv["adt"], rv["variant"], fs)
        if rv["ak"] == "closure":
            return "closure %s [%s]" % (rv["closure"], fs)
        return "%s(%s)" % (rv["ak"], fs)
    return k


def fmt_span(sp):
    s = "%s:%d" % (sp["file"].split("/")[-1], sp["line"])
    if sp.get("exp"):
        s += " exp[%s]" % (sp.get("desugar") or sp.get("mac") or sp.get("astpass") or "?")
    return s


def dump_fn(fn, out=sys.stdout, locals_=False, skip_macros=True):
    print("fn %s  (%s, %s) argc=%d" % (fn.path, fn.kind, fn.loc(), fn.argc), file=out)
    for i, l in enumerate(fn.locals if locals_ else fn.locals[:fn.argc + 1]):
        nm = fn.name_of_local.get(i, "")
        print("    let _%d: %s  %s" % (i, l["ty"], ("// " + nm) if nm else ""), file=out)
    for c in fn.captures:
        print("    capture %s by %s: %s" % (c["name"], c["by"], c["ty"]), file=out)
    for i, b in enumerate(fn.blocks):
        print("  bb%d%s:" % (i, " (cleanup)" if b.get("cleanup") else ""), file=out)
        for s in b["stmts"]:
            if skip_macros and s["span"].get("mac"):
                continue
            print("      %s = %s    // %s" % (fmt_place(s["lhs"], fn), fmt_rv(s["rv"], fn), fmt_span(s["span"])), file=out)
        t = b["term"]
        k = t["k"]
        if k == "call":
            f = t["fn"]
            name = f.get("path") or ("indirect " + fmt_op(f["indirect"], fn))
            extra = ""
            if f.get("kind") not in (None, "item"):
                extra = " {%s}" % f["kind"]
            if f.get("fnvals"):
                extra += " fnvals=%s" % f["fnvals"]
            print("      %s = %s(%s)%s -> bb%s unwind %s   // %s" % (
                fmt_place(t["dest"], fn), name, ", ".join(fmt_op(a, fn) for a in t["args"]), extra,
                t.get("target"), t.get("unwind"), fmt_span(t["span"])), file=out)
        elif k == "switch":
            print("      switch %s [%s] otherwise bb%d   // %s" % (
                fmt_op(t["op"], fn), ", ".join("%s->bb%d" % (v, b2) for v, b2 in t["targets"]), t["otherwise"],
                fmt_span(t["span"])), file=out)
        elif k == "drop":
            print("      drop(%s: %s) -> bb%d" % (fmt_place(t["pl"], fn), t["ty"], t["target"]), file=out)
        elif k in ("goto",):
            print("      goto bb%d" % t["target"], file=out)
        elif k == "assert":
            print("      assert(%s == %s) -> bb%d" % (fmt_op(t["cond"], fn), t["expected"], t["target"]), file=out)
        else:
            print("      %s" % k, file=out)
