"""R-ROLE: from/to and infd/outfd role discipline.

A small forward type-like inference over path and descriptor values across the
three crates (monotone fixpoint; parameters take the join of their call-site
roles; closure captures take the role of the captured operand).  Roles:
SRC, DST, TEXT (link text), REL (relative remainder), NONE (unknown), MIXED.
A SRC value at a mutating sink, a DST value at a fidelity/read sink, or MIXED
anywhere at a sink is a violation."""
from cfg import op_local, op_place, rv_operands
from engine import Ob, mkkey, anchor_ob
import re
import q
import r_order as ro
from names import *

NONE, SRC, DST, TEXT, REL, MIXED = "NONE", "SRC", "DST", "TEXT", "REL", "MIXED"


def join(a, b):
    if a == b or b == NONE:
        return a
    if a == NONE:
        return b
    # a relative remainder joined into either tree does not make it mixed
    if a == REL:
        return b
    if b == REL:
        return a
    return MIXED


# entry seeds: (function, parameter local) -> role
SEEDS = {
    (PF_COPY, 2): SRC, (PF_COPY, 3): DST,
    (PB_COPY, 2): SRC, (PB_COPY, 3): DST,
}

# value-preserving calls: result role = join of the roles of these arguments
TRANSPARENT = {
    "core::ops::deref::Deref::deref": [0], "core::ops::deref::DerefMut::deref_mut": [0],
    "core::convert::AsRef::as_ref": [0], "core::borrow::Borrow::borrow": [0],
    "core::convert::From::from": [0], "core::convert::Into::into": [0], "core::clone::Clone::clone": [0],
    "alloc::borrow::ToOwned::to_owned": [0],
    "core::ops::try_trait::Try::branch": [0],      # (from_residual builds the *error* return: it carries no file role)
    "core::iter::traits::collect::IntoIterator::into_iter": [0], "core::iter::traits::iterator::Iterator::next": [0],
    "core::option::Option::<T>::ok_or": [0], "core::option::Option::<T>::unwrap": [0],
    "core::result::Result::<T, E>::and_then": [0], "core::result::Result::<T, E>::map_err": [0],
    "alloc::sync::Arc::<T>::new": [0],
    "core::slice::<impl [T]>::iter": [0], "core::slice::<impl [T]>::iter_mut": [0], "core::slice::<impl [T]>::first": [0],
    "core::slice::<impl [T]>::last": [0], "core::slice::<impl [T]>::get": [0], "core::ops::index::Index::index": [0],
    "core::slice::<impl [T]>::to_vec": [0], "alloc::vec::Vec::<T, A>::as_slice": [0], "alloc::vec::Vec::<T, A>::drain": [0],
    "core::iter::traits::iterator::Iterator::by_ref": [0], "core::iter::traits::iterator::Iterator::peekable": [0],
    "core::iter::traits::iterator::Iterator::enumerate": [0], "core::iter::traits::iterator::Iterator::cloned": [0],
    "core::iter::traits::iterator::Iterator::copied": [0], "core::iter::traits::iterator::Iterator::rev": [0],
    "core::option::Option::<core::result::Result<T, E>>::transpose": [0], "core::result::Result::<core::option::Option<T>, E>::transpose": [0],
    "core::option::Option::<T>::unwrap_or": [0, 1], "core::result::Result::<T, E>::unwrap_or": [0, 1],
    "core::option::Option::<T>::unwrap_or_default": [0], "core::option::Option::<T>::as_ref": [0], "core::option::Option::<T>::as_deref": [0],
    "core::option::Option::<T>::cloned": [0], "core::option::Option::<T>::copied": [0], "core::option::Option::<T>::take": [0],
    "core::result::Result::<T, E>::ok": [0], "core::option::Option::<T>::ok_or": [0], "core::result::Result::<T, E>::as_ref": [0],
    "core::result::Result::<T, E>::unwrap": [0], "core::result::Result::<T, E>::expect": [0], "core::option::Option::<T>::expect": [0],
    "std::path::Path::to_path_buf": [0], "std::path::PathBuf::into_os_string": [0], "std::path::Path::as_os_str": [0],
    "std::path::Path::new": [0], "std::path::PathBuf::as_path": [0],
    "std::ffi::os_str::OsStr::to_os_string": [0], "std::ffi::os_str::OsString::as_os_str": [0],
    "std::ffi::os_str::OsStr::new": [0], "std::path::PathBuf::into_boxed_path": [0], "std::path::Path::into_path_buf": [0],
    "std::ffi::os_str::OsString::into_boxed_os_str": [0], "std::ffi::os_str::OsStr::into_os_string": [0],
    "std::path::Path::to_owned": [0], "alloc::borrow::Cow::<'_, B>::into_owned": [0], "alloc::boxed::Box::<T>::new": [0],
    "std::fs::canonicalize": [0], "std::path::Path::canonicalize": [0],
    "std::path::Path::join": [0],            # x.join(rel) stays in x's tree
    "std::os::unix::fs::MetadataExt::mode": [0], "std::os::unix::fs::PermissionsExt::mode": [0],
    "std::os::unix::fs::MetadataExt::uid": [0], "std::os::unix::fs::MetadataExt::gid": [0],
    "rustix::backend::fs::types::Mode::from_raw_mode": [0], "rustix::backend::fs::types::Mode::from_bits_retain": [0],
    "rustix::backend::fs::types::Mode::from_bits_truncate": [0], "rustix::backend::fs::types::Mode::from_bits": [0],
    "rustix::ugid::Uid::from_raw": [0], "rustix::ugid::Gid::from_raw": [0],
    "rustix::ugid::Uid::from_raw_unchecked": [0], "rustix::ugid::Gid::from_raw_unchecked": [0],
    "std::time::SystemTime::duration_since": [0], "core::time::Duration::as_secs": [0], "core::time::Duration::subsec_nanos": [0],
    "walkdir::WalkDir::new": [0], "walkdir::WalkDir::follow_links": [0], "walkdir::IntoIter::filter_entry": [0],
    # (the other builder methods configure the same walk of the same root)
    "walkdir::WalkDir::max_depth": [0], "walkdir::WalkDir::min_depth": [0], "walkdir::WalkDir::max_open": [0],
    "walkdir::WalkDir::same_file_system": [0], "walkdir::WalkDir::contents_first": [0], "walkdir::WalkDir::sort_by": [0],
    "walkdir::WalkDir::sort_by_key": [0], "walkdir::WalkDir::sort_by_file_name": [0], "walkdir::WalkDir::follow_root_links": [0],
    "walkdir::IntoIter::skip_current_dir": [], "walkdir::FilterEntry::<I, P>::filter_entry": [0],
    "walkdir::dent::DirEntry::into_path": [0], "walkdir::dent::DirEntry::path": [0],
    # descriptors and metadata inherit the role of what they were opened on / read from
    FILE_OPEN: [0], FILE_CREATE: [0],
    "std::fs::File::metadata": [0], "std::path::Path::metadata": [0], "std::path::Path::symlink_metadata": [0],
    "std::fs::Metadata::len": [0], "std::fs::Metadata::permissions": [0], "std::fs::Metadata::accessed": [0],
    "std::fs::Metadata::modified": [0], "std::fs::Metadata::file_type": [0],
    "std::os::unix::fs::MetadataExt::uid": [0], "std::os::unix::fs::MetadataExt::gid": [0],
    "std::os::unix::fs::MetadataExt::rdev": [0], "std::os::unix::fs::MetadataExt::dev": [0],
    "std::os::unix::fs::MetadataExt::mode": [0], "std::os::unix::fs::PermissionsExt::mode": [0],
    "std::os::fd::raw::AsRawFd::as_raw_fd": [0],
    "std::fs::FileTimes::set_accessed": [0, 1], "std::fs::FileTimes::set_modified": [0, 1],
    "rustix::backend::fs::types::Mode::from_raw_mode": [0], "rustix::backend::fs::types::FileType::from_raw_mode": [0],
    "xattr::FileExt::list_xattr": [0], "xattr::FileExt::get_xattr": [0],
    "alloc::vec::Vec::<T, A>::as_slice": [0],
}
# calls producing a fixed role
PRODUCES = {
    "std::fs::read_link": TEXT,
    "std::path::Path::strip_prefix": REL,
    "std::path::Path::components": REL,
    "core::iter::traits::double_ended::DoubleEndedIterator::next_back": REL,
}
# combinators that hand (part of) their receiver to a closure: the closure's first parameter takes the receiver's role
ITEM_TO_CLOSURE = {
    "core::option::Option::<T>::is_some_and", "core::option::Option::<T>::is_none_or", "core::option::Option::<T>::map",
    "core::option::Option::<T>::and_then", "core::option::Option::<T>::map_or", "core::option::Option::<T>::map_or_else",
    "core::option::Option::<T>::filter", "core::option::Option::<T>::inspect",
    "core::result::Result::<T, E>::is_ok_and", "core::result::Result::<T, E>::map", "core::result::Result::<T, E>::and_then",
    "core::result::Result::<T, E>::map_or", "core::result::Result::<T, E>::map_or_else", "core::result::Result::<T, E>::inspect",
    "core::iter::traits::iterator::Iterator::map", "core::iter::traits::iterator::Iterator::filter",
    "core::iter::traits::iterator::Iterator::filter_map", "core::iter::traits::iterator::Iterator::for_each",
    "core::iter::traits::iterator::Iterator::try_for_each", "core::iter::traits::iterator::Iterator::any",
    "core::iter::traits::iterator::Iterator::all", "core::iter::traits::iterator::Iterator::find",
    "core::iter::traits::iterator::Iterator::find_map", "core::iter::traits::iterator::Iterator::flat_map",
    "core::iter::traits::iterator::Iterator::inspect", "core::iter::traits::iterator::Iterator::position",
}
# in-place mutation: callee(arg0 = &mut X, arg1) makes X absorb arg1's role
ABSORBS = {"std::ffi::os_str::OsString::push": (0, 1), "std::path::PathBuf::push": (0, 1)}

# named fields / enum payloads with a fixed role, checked where they are constructed
FIELD_ROLES = {
    (COPYHANDLE, "infd"): SRC, (COPYHANDLE, "outfd"): DST, (COPYHANDLE, "metadata"): SRC,
}
VARIANT_ROLES = {
    (OPERATION, "Copy"): [SRC, DST], (OPERATION, "Link"): [TEXT, DST], (OPERATION, "Special"): [SRC, DST],
}

# sinks: callee -> {arg index: (required role, kind)}
W, R = "mutating", "fidelity"
SINKS = {
    FILE_CREATE: {0: (DST, W)}, CREATE_DIR_ALL: {0: (DST, W)}, RENAME: {0: (DST, W), 1: (DST, W)},
    REMOVE_FILE: {0: (DST, W)}, SYMLINK: {0: (TEXT, R), 1: (DST, W)}, MKNODAT: {1: (DST, W), 4: (SRC, R)},
    "std::fs::create_dir": {0: (DST, W)}, "std::fs::remove_dir": {0: (DST, W)}, "std::fs::remove_dir_all": {0: (DST, W)},
    "std::fs::write": {0: (DST, W)}, "std::fs::copy": {0: (SRC, R), 1: (DST, W)}, "std::fs::hard_link": {1: (DST, W)},
    FILE_OPEN: {0: (SRC, R)}, "std::fs::read_link": {0: (SRC, R)},
    "libfs::linux::copy_node": {0: (SRC, R), 1: (DST, W)}, "libfs::fallback::copy_node": {0: (SRC, R), 1: (DST, W)},
    "libfs::common::allocate_file": {0: (DST, W), 1: (SRC, R)}, FTRUNCATE: {0: (DST, W), 1: (SRC, R)},
    "libfs::linux::copy_file_bytes": {0: (SRC, R), 1: (DST, W)}, "libfs::linux::copy_file_offset": {0: (SRC, R), 1: (DST, W)},
    "libfs::fallback::copy_file_bytes": {0: (SRC, R), 1: (DST, W)}, "libfs::fallback::copy_file_offset": {0: (SRC, R), 1: (DST, W)},
    "libfs::linux::try_copy_file_range": {0: (SRC, R), 2: (DST, W)}, COPY_FILE_RANGE: {0: (SRC, R), 2: (DST, W)},
    "libfs::common::copy_bytes_uspace": {0: (SRC, R), 1: (DST, W)}, "libfs::common::copy_range_uspace": {0: (SRC, R), 1: (DST, W)},
    "libfs::common::read_bytes": {0: (SRC, R)}, "libfs::common::write_bytes": {0: (DST, W)},
    PREAD: {0: (SRC, R)}, PWRITE: {0: (DST, W)}, READ: {0: (SRC, R)}, WRITE: {0: (DST, W)}, WRITE_ALL: {0: (DST, W)},
    SET_PERMISSIONS: {0: (DST, W), 1: (SRC, R)}, SET_TIMES: {0: (DST, W), 1: (SRC, R)},
    FCHOWN: {0: (DST, W)}, SET_XATTR: {0: (DST, W)}, "xattr::FileExt::list_xattr": {0: (SRC, R)},
    "xattr::FileExt::get_xattr": {0: (SRC, R)}, FSYNC: {0: (DST, W)},
    "libfs::common::copy_permissions": {0: (SRC, R), 1: (DST, W)}, "libfs::common::copy_timestamps": {0: (SRC, R), 1: (DST, W)},
    "libfs::common::copy_owner": {0: (SRC, R), 1: (DST, W)}, "libfs::common::copy_xattr": {0: (SRC, R), 1: (DST, W)},
    "libfs::common::sync": {0: (DST, W)},
    "libfs::linux::reflink": {0: (SRC, R), 1: (DST, W)}, "libfs::fallback::reflink": {0: (SRC, R), 1: (DST, W)},
    "libfs::linux::probably_sparse": {0: (SRC, R)}, "libfs::linux::map_extents": {0: (SRC, R)},
    "libfs::linux::next_sparse_segments": {0: (SRC, R), 1: (DST, W)},
    "libfs::fallback::probably_sparse": {0: (SRC, R)}, "libfs::fallback::map_extents": {0: (SRC, R)},
    NEW: {0: (SRC, R), 1: (DST, W)},
    PB_QFB: {0: (SRC, R), 1: (DST, W)},
    WALKER: {0: (SRC, R), 1: (DST, W)},
    "libxcp::backup::needs_backup": {0: (DST, W)}, "libxcp::backup::get_backup_path": {0: (DST, W)},
    "libxcp::paths::lexists": {0: (DST, W)},
    "ignore::gitignore::GitignoreBuilder::new": {0: (SRC, R)}, "ignore::gitignore::GitignoreBuilder::add": {1: (SRC, R)},
    "libxcp::paths::parse_ignore": {0: (SRC, R)},
}
# ioctl(FICLONE): fd argument is the destination, the third the source
IOCTL_FICLONE = {0: (DST, W), 2: (SRC, R)}


def _units(fx, _memo={}):
    k = id(fx)
    if k in _memo and _memo[k][0] is fx:
        return _memo[k][1]
    import views
    us = {}
    work = [e for lab, e in sorted(views.roles(fx).items()) if e in fx.fns and fx.fns[e].crate in ("libxcp",)]
    while work:
        p = work.pop()
        if p in us or p not in fx.fns:
            continue
        g = fx.fns[p]
        if g.crate not in ("libxcp", "libfs") or g.from_expansion and not g.is_closure:
            continue
        try:
            v = views.view(fx, p)
        except Exception:
            v = g
        us[p] = v
        for bi, t in v.calls():
            f_ = t.get("fn") or {}
            for c in [f_.get("path")] + list(f_.get("fnvals") or []):
                if c in fx.fns and c not in us:
                    work.append(c)
            for a in t["args"]:
                c_ = a.get("c")
                if c_ and "fn" in c_ and c_["fn"].get("path") in fx.fns:
                    work.append(c_["fn"]["path"])
        for b in v.blocks:
            for s_ in b["stmts"]:
                if s_["rv"]["k"] == "agg" and s_["rv"].get("ak") == "closure" and s_["rv"]["closure"] in fx.fns:
                    work.append(s_["rv"]["closure"])
    _memo[k] = (fx, us)
    return us


def _path_param_role(ty):
    """`Vec<PathBuf>` / `&[PathBuf]` are the sources, a single `&Path` / `PathBuf` is the destination."""
    t = ty.replace("&mut ", "").replace("&", "").strip()
    if re.match(r"^(alloc::vec::Vec<std::path::PathBuf(, [^>]*)?>|\[std::path::PathBuf\])$", t):
        return SRC
    if t in ("std::path::Path", "std::path::PathBuf"):
        return DST
    return None


class Roles:
    def __init__(self, fx):
        self.fx = fx
        self.role = {}          # (fn path, local) -> role
        # analysis units: the inlined views of the thread roles, of the handle's Drop, and of every workspace
        # function those views still *call* (libfs's API, decision functions, closures of lazy adaptors) -- so a
        # value is followed through helpers, builder/context structs and combinator closures field-sensitively
        self.units = _units(fx)
        if len(self.units) < 3:
            # a crate without thread roles (the controls' fixture crate): every function is its own unit
            self.units = {f.path: f for f in ro.fns_in_scope(fx)}
        self.fns = list(self.units.values())
        self.by_path = self.units
        self.frole = {}            # (struct adt, field name) -> role learned from its construction sites
        self.structs = set(p_ for p_, a_ in fx.adts.items() if a_.get("kind") == "struct")
        self.wenums = set(p_ for p_, a_ in fx.adts.items() if a_.get("kind") == "enum" and
                          p_.split("::")[0] in ("libxcp", "libfs", "xcp") and p_ != OPERATION)
        self.closure_parent = {}   # closure path -> (parent fn, operands)
        for f in self.fns:
            for b in f.blocks:
                if b.get("cleanup"):
                    continue
                for s in b["stmts"]:
                    rv = s["rv"]
                    if rv["k"] == "agg" and rv.get("ak") == "closure":
                        self.closure_parent[rv["closure"]] = (f, rv["fields"])
        for (fp, l), r in SEEDS.items():
            self.role[(fp, l)] = r
        # the drivers' entry point takes "many sources, one destination" -- as two parameters, or as the fields
        # of a request struct
        self.seeded_fields = {}
        for p_, g_ in fx.fns.items():
            if not p_.endswith(" as libxcp::drivers::CopyDriver>::copy"):
                continue
            plain = []
            for l_ in range(2, g_.argc + 1):
                ty_ = g_.locals[l_]["ty"]
                r_ = _path_param_role(ty_)
                if r_ is not None:
                    self.role[(p_, l_)] = r_
                    plain.append(r_)
                    continue
                a_ = fx.adts.get(ty_.lstrip("&").replace("mut ", ""))
                if a_ is not None and a_.get("kind") == "struct" and ty_.split("::")[0].lstrip("&") in ("libxcp", "xcp"):
                    for v_ in a_.get("variants", []):
                        for fl_ in v_.get("fields", []):
                            fr_ = _path_param_role(fl_.get("ty") or "")
                            if fr_ is not None:
                                self.seeded_fields[(a_["path"], fl_.get("name"))] = fr_
            if not plain and not self.seeded_fields:
                self.role[(p_, 2)] = SRC
                self.role[(p_, 3)] = DST
        self.frole.update(self.seeded_fields)
        self._solve()

    def get(self, f, l):
        return self.role.get((f.path, l), NONE)

    def _set(self, f, l, r):
        old = self.role.get((f.path, l), NONE)
        new = join(old, r)
        if new != old:
            self.role[(f.path, l)] = new
            return True
        return False

    def place_role(self, f, p, _depth=0):
        r = None
        projs = p.get("p", [])
        if _depth < 6 and any(isinstance(e, dict) and "f" in e for e in projs):
            # a field of a tuple / struct / closure environment built in this unit: what was put into it
            fixed = [e for e in projs if isinstance(e, dict) and "f" in e and (e.get("adt"), e.get("n")) in FIELD_ROLES]
            if not fixed:
                src = q.agg_field_source(f, p)
                if src is not None:
                    sp = op_place(src)
                    if sp is not None:
                        return self.place_role(f, sp, _depth + 1)
        variant = None
        for e in projs:
            if isinstance(e, dict) and "dc" in e:
                variant = e["dc"]
            elif isinstance(e, dict) and "f" in e:
                adt = e.get("adt")
                if (adt, e.get("n")) in FIELD_ROLES:
                    r = FIELD_ROLES[(adt, e.get("n"))]
                elif (adt, e.get("n")) in self.frole:
                    r = self.frole[(adt, e.get("n"))]
                elif variant is not None and (adt, variant) in VARIANT_ROLES:
                    roles = VARIANT_ROLES[(adt, variant)]
                    if e["f"] < len(roles):
                        r = roles[e["f"]]
                elif variant is not None and (adt, "%s#%d" % (variant, e["f"])) in self.frole:
                    r = self.frole[(adt, "%s#%d" % (variant, e["f"]))]
                elif e.get("upvar") and f.is_closure and p["l"] == 1:
                    par = self.closure_parent.get(f.path)
                    if par and e["f"] < len(par[1]):
                        r = self.operand_role(par[0], par[1][e["f"]])
                variant = None
        if r is not None:
            return r
        return self.get(f, p["l"])

    def operand_role(self, f, o):
        p = op_place(o)
        if p is None:
            return NONE
        return self.place_role(f, p)

    def _solve(self):
        fx = self.fx
        changed = True
        rounds = 0
        while changed and rounds < 60:
            changed = False
            rounds += 1
            for f in self.fns:
                for b in f.blocks:
                    if b.get("cleanup"):
                        continue
                    for s in b["stmts"]:
                        rv = s["rv"]
                        k = rv["k"]
                        lhs = s["lhs"]
                        r = NONE
                        if k in ("use", "cast", "repeat"):
                            r = self.operand_role(f, rv["op"])
                        elif k in ("ref", "rawptr"):
                            r = self.place_role(f, rv["pl"])
                        elif k == "agg" and rv.get("ak") in ("tuple", "array"):
                            for o in rv["fields"]:
                                r = join(r, self.operand_role(f, o))
                        elif k == "agg" and rv.get("ak") == "adt" and rv.get("adt") in self.wenums and \
                                (rv.get("adt"), rv.get("variant")) not in VARIANT_ROLES and rv.get("fields"):
                            # a workspace enum that carries paths (`Action::Copy { from, to }` chosen by a
                            # classify step and executed by a perform step): each field of each variant has the
                            # role of what it is built from
                            for i_, o in enumerate(rv["fields"]):
                                fr = self.operand_role(f, o)
                                key_ = (rv["adt"], "%s#%d" % (rv.get("variant"), i_))
                                old_ = self.frole.get(key_, NONE)
                                new_ = join(old_, fr)
                                if new_ != old_:
                                    self.frole[key_] = new_
                                    changed = True
                        elif k == "agg" and rv.get("ak") == "adt" and rv.get("adt") in self.structs and \
                                rv.get("adt") != COPYHANDLE:
                            # a workspace struct that carries paths/descriptors (a builder, a per-run context, a
                            # probe wrapper): each field has the role of what it is built from
                            for i_, o in enumerate(rv["fields"]):
                                if i_ < len(rv.get("fnames", [])):
                                    fr = self.operand_role(f, o)
                                    key_ = (rv["adt"], rv["fnames"][i_])
                                    old_ = self.frole.get(key_, NONE)
                                    new_ = join(old_, fr)
                                    if new_ != old_:
                                        self.frole[key_] = new_
                                        changed = True
                        elif k == "agg" and rv.get("ak") == "adt" and rv.get("adt") not in fx.adts and \
                                (rv.get("adt") or "").split("::")[0] not in ("core", "alloc", "std", "libxcp", "libfs", "xcp"):
                            # an argument struct of a third-party API (`rustix::fs::Timestamps { last_access, .. }`):
                            # it names the file its parts come from
                            for o in rv["fields"]:
                                r = join(r, self.operand_role(f, o))
                        elif k == "agg" and rv.get("ak") == "adt" and rv.get("adt") in (
                                "core::option::Option", "core::result::Result", "core::ops::control_flow::ControlFlow",
                                "alloc::borrow::Cow"):
                            if rv.get("variant") not in ("Err", "Break"):     # an error value names no file
                                for o in rv["fields"]:
                                    r = join(r, self.operand_role(f, o))
                        if r != NONE:
                            if self._set(f, lhs["l"], r):
                                changed = True
                    t = b["term"]
                    if t["k"] != "call":
                        continue
                    o, p = q.names(t)
                    args = t["args"]
                    # parameters of workspace callees take the join of call-site roles
                    tgt = self.by_path.get(p)
                    if tgt is not None:
                        for i, a in enumerate(args):
                            if i < tgt.argc:
                                if self._set(tgt, i + 1, self.operand_role(f, a)):
                                    changed = True
                    # closures invoked through Fn* traits: upvars resolve through closure_parent
                    if o in ITEM_TO_CLOSURE and args:
                        for fv in t["fn"].get("fnvals", []):
                            cf = self.by_path.get(fv)
                            if cf is not None and cf.argc >= 2:
                                if self._set(cf, 2, self.operand_role(f, args[0])):
                                    changed = True
                    r = NONE
                    if o in TRANSPARENT or p in TRANSPARENT:
                        for i in (TRANSPARENT.get(o) or TRANSPARENT.get(p)):
                            if i < len(args):
                                r = join(r, self.operand_role(f, args[i]))
                    elif (p or "").endswith(("::from_bits_retain", "::from_bits_truncate", "::bits")) and args:
                        r = self.operand_role(f, args[0])          # bitflags wrappers around the same bits
                    elif o in PRODUCES:
                        r = PRODUCES[o]
                    elif tgt is not None:
                        # result of a workspace function: role of its return place
                        r = self.get(tgt, 0)
                    elif args and (t.get("arg_tys") or [None])[0] == t.get("dest_ty") and \
                            "::" in (t.get("dest_ty") or "") and p not in self.fx.fns:
                        # a library method that hands back its receiver's own type (a builder step:
                        # `WalkDir::max_depth(self, n) -> Self`, `OpenOptions::mode(&mut self, m) -> &mut Self`)
                        r = self.operand_role(f, args[0])
                    if o in ABSORBS:
                        di, si = ABSORBS[o]
                        dl = op_local(args[di])
                        if dl is not None:
                            # args[di] is `&mut X`: propagate into X
                            for site, whole in __import__("cfg").defuse(f).defs.get(dl, []):
                                if not site.is_term and site.node["rv"]["k"] == "ref":
                                    if self._set(f, site.node["rv"]["pl"]["l"], self.operand_role(f, args[si])):
                                        changed = True
                    if r != NONE and not t["dest"].get("p"):
                        if self._set(f, t["dest"]["l"], r):
                            changed = True
        self.rounds = rounds


_roles = {}


def roles(fx):
    if id(fx) not in _roles:
        _roles[id(fx)] = Roles(fx)
    return _roles[id(fx)]


def role_obs(fx, which=("mutating", "fidelity"), cfgname="A"):
    """Sink and construction obligations.  A source site (a call or an aggregate) usually occurs in several
    analysis units: inlined into each role that runs it, and once more in its own function/closure.  It is judged
    in the units where its function is *inlined into its caller* (there its operands have their provenance) if
    such units exist, else in its own unit; every unit that judges it must agree."""
    import p_gate
    R_ = roles(fx)
    reach = p_gate.driver_reach(fx)
    per_site = {}      # (kind, file, line, col, callee/adt, arg) -> [(inlined?, ok, trivial, what, unit path, witness)]
    for f in R_.fns:
        root = getattr(f, "inlined_from", None) or f.path
        rootfn = fx.fns.get(root)
        in_graph = root in reach or (rootfn is not None and rootfn.root in reach) or getattr(f, "inlined_from", None) is not None
        for bi, b in enumerate(f.blocks):
            if b.get("cleanup"):
                continue
            inl = b.get("origin", root) != root
            t = b["term"]
            if t["k"] == "call" and not q.span_excluded(t["span"]):
                o, p = q.names(t)
                spec = SINKS.get(o) or SINKS.get(p)
                if o == IOCTL:
                    spec = IOCTL_FICLONE if _is_ficlone(f, t) else None
                if spec:
                    for ai, (need, kind) in sorted(spec.items()):
                        if kind not in which or ai >= len(t["args"]):
                            continue
                        got = R_.operand_role(f, t["args"][ai])
                        if got == NONE:
                            ok = not in_graph or "c" in t["args"][ai]
                            trivial = not in_graph
                            what = "role of argument %d of %s is undetermined%s" % (
                                ai, o.split("::")[-1], " (function not reachable from the drivers)" if not in_graph else "")
                        else:
                            ok = got == need
                            trivial = False
                            what = "argument %d of %s has role %s, sink requires %s" % (ai, o.split("::")[-1], got, need)
                        sid = ("sink", t["span"]["file"], t["span"]["line"], t["span"].get("col"), o, ai, need,
                               b.get("origin", root))
                        per_site.setdefault(sid, []).append((inl, ok, trivial, what, f.path,
                                                             None if ok else dict(callee=o, arg=ai, role=got, required=need, kind=kind)))
            for s in b["stmts"]:
                rv = s["rv"]
                if rv["k"] != "agg" or rv.get("ak") != "adt":
                    continue
                want = None
                if (rv["adt"], rv["variant"]) in VARIANT_ROLES:
                    want = VARIANT_ROLES[(rv["adt"], rv["variant"])]
                elif rv["adt"] == COPYHANDLE:
                    want = [FIELD_ROLES.get((COPYHANDLE, nm)) for nm in rv["fnames"]]
                if want is None:
                    continue
                for i, o_ in enumerate(rv["fields"]):
                    if i >= len(want) or want[i] is None:
                        continue
                    kind = W if want[i] == DST else R
                    if kind not in which:
                        continue
                    got = R_.operand_role(f, o_)
                    ok = got == want[i]
                    sid = ("agg", s["span"]["file"], s["span"]["line"], s["span"].get("col"),
                           "%s::%s" % (rv["adt"], rv["variant"]), i, want[i], b.get("origin", root))
                    per_site.setdefault(sid, []).append((inl, ok, False, "%s::%s field %d built from a %s value, must be %s" % (
                        rv["adt"].split("::")[-1], rv["variant"], i, got, want[i]), f.path,
                        None if ok else dict(role=got, required=want[i])))
    obs = []
    counters = {}
    import views as _views
    role_units = set(_views.roles(fx).values())
    for sid, evs in sorted(per_site.items(), key=lambda kv: tuple(str(x) for x in kv[0])):
        # where a thread role runs the site, that is where it is judged (all operands have their provenance there);
        # failing that, where its function is inlined into a caller; failing that, in its own function
        use = [e for e in evs if e[4] in role_units] or [e for e in evs if e[0]] or evs
        bad = [e for e in use if not e[1]]
        inl, ok, trivial, what, unit, wit = (bad or use)[0]
        ok = not bad
        kind_, file_, line_, col_, name_, idx_, need_, origin_ = sid
        kk = (origin_, name_, idx_)
        n = counters.get(kk, 0)
        counters[kk] = n + 1
        if kind_ == "sink":
            key = mkkey("R-ROLE", origin_, name_, n, "arg%d:%s" % (idx_, need_))
        else:
            key = mkkey("R-ROLE", origin_, name_, n, "field%d:%s" % (idx_, need_))
        obs.append(Ob("R-ROLE", key, ok, "%s:%d" % (file_, line_), origin_, what, wit,
                      trivial=all(e[2] for e in use), cfg=cfgname))
    return obs


def _is_ficlone(f, t):
    if len(t["args"]) < 2:
        return False
    from cfg import Prov
    l = op_local(t["args"][1])
    c = t["args"][1].get("c")
    vals = set()
    if c is not None and "v" in c:
        vals.add(int(c["v"]))
    if l is not None:
        atoms, _f, _s = Prov(f).origins(l)
        for a in atoms:
            if a.kind == "const" and ":" in str(a.what):
                try:
                    vals.add(int(str(a.what).rsplit(":", 1)[1]))
                except ValueError:
                    pass
    return 0x40049409 in vals
