"""C10 (metadata fidelity), C18 (fsync after last write) and the ownership facts
they share with C06(c)."""
from cfg import cfg_of, Prov, op_local
from engine import Ob, mkkey, anchor_ob
import q
import r_order as ro
from names import *


def finalise_gates(fx, rule="R-ORDER"):
    """(b) each finalisation helper is guarded by its own flag with the right polarity -- on the inlined view of
    the handle's Drop (the flag may be read through an accessor method of Config)."""
    import views
    obs = []
    table = [("libfs::common::copy_permissions", "no_perms", False),
             ("libfs::common::copy_timestamps", "no_timestamps", False),
             ("libfs::common::copy_owner", "ownership", True),
             ("libfs::common::sync", "fsync", True)]
    dv = views.drop_view(fx)
    if dv is None:
        return [anchor_ob(rule, DROP)]
    for callee, field, want in table:
        ps = ro.performers(fx, dv, callee, direct_only=True)
        seen = set()
        n = 0
        for (bi, t, how) in ps:
            sid = views.site(dv, bi)
            ok, why = q.gated(dv, bi, CONFIG, field, want)
            if sid in seen and ok:
                continue
            seen.add(sid)
            obs.append(Ob(rule, mkkey(rule, "handle-drop", callee, n, "gated:%s=%s" % (field, want)), ok, q.loc_of(t),
                          DROP, "%s must run iff config.%s == %s: %s" % (callee.split("::")[-1], field, want, why),
                          None if ok else dict(block="bb%d" % bi), ))
            n += 1
        if not ps:
            obs.append(anchor_ob(rule, "dropping the handle calls %s" % callee))
            continue
        # and the converse: with the flag saying "do it", the finalisation does not complete quietly without it --
        # every path to the end that stays off the edges where the flag says "don't" passes the call or a failure
        # signal (an early `return Ok(())` from an unrelated branch would skip the steps below it)
        import r_err
        from cfg import cfg_of
        cfg = cfg_of(dv)
        off_edges = [(u, v) for (u, v, val) in q.gate_edges(dv, CONFIG, field, fx) if val != want]
        sig = set(r_err.signal_blocks(dv))
        r = cfg.reach([0], blocked=set(b_ for (b_, _t, _h) in ps) | sig, blocked_edges=off_edges)
        leak = sorted(b_ for b_ in cfg.returns if b_ in r)
        obs.append(Ob(rule, mkkey(rule, "handle-drop", callee, 0, "required-when:%s=%s" % (field, want)), not leak,
                      q.loc_of(ps[0][1]), DROP,
                      "with config.%s == %s the finalisation ends only after %s or a failure signal: %s" % (
                          field, want, callee.split("::")[-1], not leak),
                      None if not leak else dict(returns_reached=["bb%d" % x for x in leak])))
    return obs


def owner_before_mode(fx):
    """(a) fchown never follows fchmod (chown clears set-user/group-ID), anchored on the primitives
    so wrappers and renamed helpers are followed."""
    obs = ro.never_after(fx, {SET_PERMISSIONS}, {FCHOWN}, "R-ORDER",
                         "fchown after fchmod drops set-user-ID/set-group-ID", crates=("libxcp", "libfs"))
    if not obs:
        obs.append(anchor_ob("R-ORDER", "no function performs both fchmod and fchown", "libxcp, libfs"))
    return obs


def times_after_data(fx):
    """(a2) in any function that *calls* the timestamp setter, no data-writing call can follow it."""
    obs = ro.never_after(fx, {SET_TIMES}, DATA_WRITERS - {IOCTL}, "R-ORDER",
                         "a data write after futimens would change mtime", crates=("libxcp", "libfs"))
    # today no function performs both; the instance that matters is finalise_copy: state it explicitly
    import views
    f = views.drop_view(fx)
    if f is None:
        return obs + [anchor_ob("R-ORDER", DROP)]
    pw = ro.performers(fx, f, DATA_WRITERS - {IOCTL})
    obs.append(Ob("R-ORDER", mkkey("R-ORDER", "handle-drop", "no-data-writer", 0), not pw, f.loc(), DROP,
                  "finalisation performs no data write (found %d)" % len(pw),
                  dict(writers=[q.loc_of(t) for _, t, _ in pw]) if pw else None))
    return obs


def sync_last(fx):
    """C18: no write-side call on the destination follows fsync inside the finalisation."""
    obs = ro.never_after(fx, {FSYNC}, DATA_WRITERS - {IOCTL}, "R-ORDER",
                         "a data write after fsync is not flushed", crates=("libxcp", "libfs"))
    f = fx.fn("libfs::common::sync")
    if f is None or not ro.performers(fx, f, FSYNC):
        obs.append(anchor_ob("R-ORDER", "libfs::common::sync reaches fsync(2)"))
    else:
        obs.append(Ob("R-WHO", mkkey("R-WHO", "libfs::common::sync", FSYNC, 0), True, f.loc(), f.path,
                      "sync() reaches rustix fsync"))
    return obs


def _origin_calls_through_captures(fx, f, t, ai, depth=0):
    """Names of the calls argument ai derives from; a value captured by a closure is followed into the function
    that builds the closure."""
    calls, atoms, fields = q.arg_origin_calls(f, t, ai)
    out = set(calls)
    if f.is_closure and depth < 4 and any(a.kind == "arg" and a.what == 1 for a in atoms):
        parent = fx.fns.get(f.root)
        idxs = [fl[1] for fl in fields if fl[0] is None and isinstance(fl[1], int)]
        if parent is not None:
            from cfg import Prov, op_local
            for b in parent.blocks:
                if b.get("cleanup"):
                    continue
                for s in b["stmts"]:
                    rv = s["rv"]
                    if rv["k"] == "agg" and rv.get("ak") == "closure" and rv.get("closure") == f.path:
                        for i in idxs:
                            if i < len(rv["fields"]):
                                l = op_local(rv["fields"][i])
                                if l is not None:
                                    tbl = {"std::os::unix::fs::PermissionsExt::mode": [0]}
                                    for _b2, t2 in parent.calls():
                                        for nm in q.names(t2):
                                            if nm and nm.endswith(("::from_bits_retain", "::from_bits_truncate", "::bits")):
                                                tbl[nm] = [0]
                                    at2, _f2, _s2 = Prov(parent, table=tbl).origins(l)
                                    out |= set(a.what for a in at2 if a.kind == "call")
    return out


def full_permissions(fx):
    """(e) copy_permissions applies the source's full permissions(): the argument of set_permissions
    derives from Metadata::permissions of File::metadata(infd) and from nothing else (no masking)."""
    obs = []
    hits = 0
    import views
    MODE_SOURCES = {"std::fs::Metadata::permissions", "std::os::unix::fs::MetadataExt::mode"}
    MODE_PLUMBING = {"std::fs::File::metadata", "std::os::unix::fs::PermissionsExt::mode",
                     "std::os::unix::fs::PermissionsExt::from_mode",
                     "rustix::backend::fs::types::Mode::from_raw_mode", "rustix::backend::fs::types::Mode::from_bits_retain",
                     "rustix::backend::fs::types::Mode::from_bits_truncate"}
    seen_sites = set()
    for f in ro.fns_in_scope(fx, crates=("libfs", "libxcp")):
        if not q.calls_to(f, SET_PERMISSIONS):
            continue
        # judged in the function that contains the call -- for a closure (`retry(|| fchmod(fd, mode))`) that is
        # the view of the function the closure is written in, where the captured mode has its provenance
        host = fx.fns.get(f.root) if f.is_closure else f
        v = (views.view(fx, host.path, depth=4) if host is not None else None) or f
        if not q.calls_to(v, SET_PERMISSIONS):
            v = f          # the closure is run by a library helper (`rustix::io::retry_on_intr(|| ..)`): judged in place
        for n, (bi, t) in enumerate(q.calls_to(v, SET_PERMISSIONS)):
            sid = (t["span"]["file"], t["span"]["line"], t["span"].get("col"))
            if sid in seen_sites:
                continue
            seen_sites.add(sid)
            hits += 1
            calls = _origin_calls_through_captures(fx, v, t, 1)
            atoms = []
            calls = set(c_ for c_ in calls if not c_.endswith(("::from_bits_retain", "::from_bits_truncate", "::bits")))
            ok = bool(calls & MODE_SOURCES) and calls <= (MODE_SOURCES | MODE_PLUMBING)
            # and that metadata comes from the *source* descriptor (parameter 1 = infd) -- role detail in R-ROLE
            obs.append(Ob("R-TABLE", mkkey("R-TABLE", host.path if host is not None else f.path, SET_PERMISSIONS, n, "full-mode"),
                          ok, q.loc_of(t), f.path,
                          "mode passed to fchmod derives from %s" % sorted(calls),
                          None if ok else dict(origins=[repr(a) for a in atoms])))
    if not hits:
        obs.append(anchor_ob("R-TABLE", "no set_permissions call"))
    return obs


def _only_formatted(f, l, depth=0):
    """Every use of the value is a borrow that ends in a `fmt::Argument` (it is printed, nothing else)."""
    from cfg import defuse, op_local
    du = defuse(f)
    uses = du.uses.get(l, [])
    if not uses or depth > 4:
        return False
    for site, how in uses:
        n = site.node
        if site.is_term:
            if n["k"] == "call" and (q.names(n)[0] or "").startswith(("core::fmt::rt::Argument", "core::fmt::Arguments")):
                continue
            if n["k"] in ("drop",):
                continue
            return False
        rv = n["rv"]
        if rv["k"] in ("ref", "use", "cast") and not n["lhs"].get("p"):
            if not _only_formatted(f, n["lhs"]["l"], depth + 1):
                return False
            continue
        if rv["k"] == "agg" and rv.get("ak") in ("array", "tuple") and not n["lhs"].get("p"):
            if not _only_formatted(f, n["lhs"]["l"], depth + 1):
                return False
            continue
        return False
    return True


def ownership_facts(fx):
    """C06(c)/C10(d)/C18: finalisation is tied to the last owner of the handle.
    * finalise_copy is called only from <CopyHandle as Drop>::drop;
    * the four helpers are called (in libxcp) only from finalise_copy;
    * CopyHandle is not Clone, and its aggregate is built only in CopyHandle::new;
    * libxcp never duplicates or exports the descriptors (try_clone / raw fd / as_fd);
    * closures handed to the pool capture the Arc<CopyHandle> by value."""
    obs = []
    import views
    dv = views.drop_view(fx)
    if dv is None:
        obs.append(anchor_ob("R-WHO", DROP))
    for h in ("libfs::common::copy_permissions", "libfs::common::copy_timestamps", "libfs::common::copy_owner",
              "libfs::common::sync"):
        # allowed context: the Drop impl of the handle, or a private helper all of whose call sites are
        obs += ro.callers_within(fx, h, {DROP}, "R-WHO", "metadata/fsync helpers run only when the handle is dropped")
        if dv is not None and not ro.performers(fx, dv, h):
            obs.append(anchor_ob("R-WHO", "dropping the handle performs %s" % h.split("::")[-1]))
    clone = [i for i in fx.impls if i["trait"] == "core::clone::Clone" and i["self_ty"] == COPYHANDLE]
    obs.append(Ob("R-WHO", mkkey("R-WHO", COPYHANDLE, "impl Clone", 0), not clone, "", COPYHANDLE,
                  "CopyHandle implements Clone: %s" % bool(clone), dict(impls=clone) if clone else None))
    drop = [i for i in fx.impls if i["trait"] == "core::ops::drop::Drop" and i["self_ty"] == COPYHANDLE]
    obs.append(Ob("R-WHO", mkkey("R-WHO", COPYHANDLE, "impl Drop", 0), bool(drop), "", COPYHANDLE,
                  "CopyHandle implements Drop (finalisation point): %s" % bool(drop)))
    # aggregate construction sites
    n = 0
    for f in ro.fns_in_scope(fx, crates=("libxcp",)):
        for bi, b in enumerate(f.blocks):
            if b.get("cleanup"):
                continue
            for s in b["stmts"]:
                rv = s["rv"]
                if rv["k"] == "agg" and rv.get("adt") == COPYHANDLE:
                    n += 1
    if n == 0:
        obs.append(anchor_ob("R-WHO", "no CopyHandle aggregate"))
    # (where handles are built, and that they are opened/truncated and sized first: p_kinds.truncate_then_size)
    dup = {"std::fs::File::try_clone", "std::os::fd::raw::AsRawFd::as_raw_fd", "std::os::fd::raw::IntoRawFd::into_raw_fd",
           "std::os::fd::owned::AsFd::as_fd", "std::os::fd::raw::FromRawFd::from_raw_fd",
           "core::convert::Into::into|OwnedFd"}
    for f in ro.fns_in_scope(fx, crates=("libxcp",)):
        for nn, (bi, t) in enumerate(q.calls_to(f, dup)):
            if q.names(t)[0] == "std::os::fd::raw::AsRawFd::as_raw_fd" and _only_formatted(f, t["dest"]["l"]):
                continue      # the descriptor's *number* is printed (a Display/Debug impl, a log line): nothing can write through it
            obs.append(Ob("R-WHO", mkkey("R-WHO", f.path, q.names(t)[0], nn, "fd-dup"), False, q.loc_of(t), f.path,
                          "libxcp duplicates/exports a descriptor: a writer could outlive the handle",
                          dict(callee=q.names(t)[0])))
    obs.append(Ob("R-WHO", mkkey("R-WHO", "libxcp", "fd-dup-scan", 0), True, "", "libxcp",
                  "scanned libxcp for try_clone/as_raw_fd/into_raw_fd/as_fd/from_raw_fd"))
    # pool jobs capture the handle by value
    jobs = pool_job_closures(fx)
    if not jobs and PB_QFR in fx.fns:
        obs.append(anchor_ob("R-THREAD", "no closure passed to ThreadPool::execute"))
    for j in jobs:
        f = fx.fn(j)
        # a job owns what it works on (the handle Arc, directly or inside a job struct): nothing is borrowed from the
        # dispatcher's stack, so the last job to finish is the last owner
        byref = [c for c in f.captures if c["by"] != "value"]
        bare = [c for c in f.captures if COPYHANDLE in c["ty"] and not c["ty"].startswith("alloc::sync::Arc<")]
        ok = not byref and not bare
        obs.append(Ob("R-THREAD", mkkey("R-THREAD", "pool-job", "captures", 0, j.split("::")[-2] if "::" in j else j), ok, f.loc(), j,
                      "pool job owns its captures (all by value, handles only behind Arc): %s" % ok,
                      None if ok else dict(by_ref=byref, bare_handles=bare)))
    return obs


def pool_job_closures(fx):
    out = []
    for f in ro.fns_in_scope(fx, crates=("libxcp",)):
        for bi, t in q.calls_to(f, POOL_EXECUTE):
            for fv in (t["fn"].get("fnvals") or []):
                if fv in fx.fns:
                    out.append(fv)
    return sorted(set(out))


def xattr_flags_plain(fx):
    """(xattrs) an extended attribute is *set*, whether or not the destination already has one of that name:
    the raw setxattr wrappers take a flags argument, and XATTR_CREATE / XATTR_REPLACE make the call fail (EEXIST /
    ENODATA) on an overwritten destination -- a failure the xattr exemption then turns into a warning."""
    obs = []
    n = 0
    for f in ro.fns_in_scope(fx, crates=("libfs", "libxcp")):
        for bi, t in f.calls():
            o = (t.get("fn") or {}).get("orig_alias_of") or q.names(t)[0] or ""
            if not (o.startswith("rustix::fs::xattr::") and o.endswith("setxattr")) or not t["args"]:
                continue
            a = t["args"][-1]
            c = a.get("c") or {}
            calls, atoms, _ff = q.arg_origin_calls(f, t, len(t["args"]) - 1)
            plain = (c.get("v") == 0) or (c.get("unevaluated") or "").endswith("::empty") or \
                any(x.endswith("XattrFlags::empty") or x.endswith("::empty") or x.endswith("Default::default") for x in calls)
            obs.append(Ob("R-TABLE", mkkey("R-TABLE", f.path, o, n, "flags-empty"), plain, q.loc_of(t), f.path,
                          "flags of %s: %s" % (o.split("::")[-1], "none (set whether or not the attribute exists)" if plain else
                                               "%s -- fails on an attribute the destination already has (or lacks)" % (c.get("unevaluated") or sorted(calls) or "?")),
                          None if plain else dict(flags=c.get("unevaluated") or sorted(calls))))
            n += 1
    return obs


def c10(ctx):
    fx = ctx.fx("A")
    ctx.add(xattr_flags_plain(fx))
    ctx.add(owner_before_mode(fx))
    ctx.add(times_after_data(fx))
    ctx.add(finalise_gates(fx))
    ctx.add(full_permissions(fx))
    ctx.add(ownership_facts(fx))
    import p_gate
    ctx.add([o for o in p_gate.helpers_always_apply(fx) if "allocate_file" not in o.key])
    import p_role
    meta_sinks = ("copy_permissions", "copy_timestamps", "copy_owner", "copy_xattr", "set_permissions", "set_times",
                  "fchown", "set_xattr", "list_xattr", "get_xattr", "CopyHandle")
    ctx.add([o for o in p_role.role_obs(fx) if any(m in o.key for m in meta_sinks)])


def c18(ctx):
    fx = ctx.fx("A")
    ctx.add([o for o in finalise_gates(fx) if "fsync" in o.key])
    ctx.add(sync_last(fx))
    ctx.add(ownership_facts(fx))
    import p_gate
    ctx.add([o for o in p_gate.helpers_always_apply(fx) if "::sync|" in o.key])
    # an earlier finalisation step that fails skips the fsync: that failure must fail the run, not be tolerated
    import r_err
    members = set(x for x in q.callgraph(fx).reach(DROP) if x in fx.fns) | {DROP}
    ctx.add([o for o in r_err.run(fx, crates=("libxcp",)) if o.fn in members])
