"""Per-property rule instances (DESIGN.md section 4)."""
import facts
import engine
from engine import Ob, mkkey, anchor_ob
import r_err
import r_probe


class ControlFailure(Exception):
    pass


class Ctx:
    def __init__(self, tier, rep):
        self.tier = tier
        self.rep = rep
        self.loaded = {}

    def fx(self, cfg="A"):
        if cfg not in self.loaded:
            self.loaded[cfg] = facts.load(cfg)
        return self.loaded[cfg]

    def add(self, obs):
        self.rep.add(obs)

    def stats(self):
        out = {}
        for c, fx in self.loaded.items():
            out[c] = fx.counts()
        return out

    def enforce_floors(self, floors):
        """floors: rule -> minimum number of instances confirmed on the reviewed tree (tables/floors.json,
        frozen by tools/freeze_floors.py after review; cfg A instances only)."""
        import json, os
        if os.environ.get("XCPV_NO_FLOORS"):
            return
        fp = os.path.join(facts.VERIF, "tables", "floors.json")
        if os.path.exists(fp):
            with open(fp) as f:
                floors = json.load(f).get(self.rep.prop, floors)
        # families that answer only where the code resolves ("undecided" otherwise) have no floor by design
        floors = {k_: v_ for k_, v_ in floors.items() if k_ not in ("R-RANGE", "R-TILE")}
        counts = {}
        seen = set()
        for o in self.rep.obs:
            if (o.cfg, o.key) in seen or o.key.startswith("ANCHOR"):
                continue
            seen.add((o.cfg, o.key))
            counts[o.rule] = counts.get(o.rule, 0) + 1
        for rule, n in floors.items():
            # a behaviour-preserving merge of duplicated code (both drivers through one helper) can halve a count; a
            # rule family that lost more than half of its instances has lost its anchors (each rule also checks its
            # own anchors and fails closed when one is missing)
            n = max(1, n // 2)
            if counts.get(rule, 0) < n:
                self.rep.add([anchor_ob(rule, "instances %d < floor %d" % (counts.get(rule, 0), n),
                                        "rule matched fewer sites than were confirmed by hand")])

    def run_controls(self, names):
        import controls
        for n in names:
            res = controls.run(n, self)
            self.rep.controls.append(res)
            if not res["ok"]:
                raise ControlFailure("%s: %s" % (n, res["detail"]))

    def run_thorough(self, spec):
        import thorough
        thorough.run(self, spec)


# --------------------------------------------------------------------------
# C04
# --------------------------------------------------------------------------

def c04(ctx):
    fx = ctx.fx("A")
    ctx.add(r_err.run(fx, cfgname="A"))
    ctx.add(r_probe.run_swallow(fx, cfgname="A"))
    fb = ctx.fx("B")
    ctx.add(r_err.run(fb, crates=("libfs",), cfgname="B"))
    # the status channel's consumer: an Error update becomes the exit status; every thread is joined
    import p_thread
    ctx.add(p_thread.main_consumer_table(fx))
    ctx.add(p_thread.spawn_join(fx))
    # ... and the updater the binary hands to the driver delivers what it is sent
    import p_deliver
    ctx.add(p_deliver.errors_delivered(fx))


PROPS = {}

PROPS["C04"] = dict(
    run=c04,
    floors={"R-ERR": 150, "R-PROBE": 7},
    controls=["r_err", "r_probe"],
    rule="R-ERR: every call whose result is Result<_,E> (E != fmt::Error), plus C status returns and "
         "Option<Error> APIs, outside log/format/derive expansions, in all three crates, is classified by "
         "forward def-use as PROPAGATED/RETURNED/TRANSFORMED/MATCHED(+failure signal on every path out of the "
         "Err arm)/UNWRAPPED; DISCARDED or HANDLED-LOCALLY fails unless its exact key is allow-listed with a "
         "reason. R-PROBE: every error-blind probe is tabled. R-WHO: the StatusUpdater the binary gives to "
         "CopyDriver::copy is an Arc::new(T) whose <T as StatusUpdater>::send reaches a channel send (failures of pool "
         "jobs and of finalisation in Drop reach main only as StatusUpdate::Error). Non-trivial = instance is not "
         "satisfied by plain `?` propagation alone or lies on a worker/walker path.",
    explanation="Exhaustive static rule check over the compiled program's MIR: decides the error-discipline "
                "clause of C04 (no fallible step's failure can be followed by a success path without an Err "
                "return, a StatusUpdate::Error, or a panic of a joined thread), not run-time behaviour under "
                "injected faults.",
    technique="static analysis: error-discipline dataflow (def-use classification of every fallible call site over MIR) + who-may-call rule on error-blind probes",
    level_text="Exhaustive static rule check over the compiled program: every fallible call site of the three crates "
               "(default and fallback-backend builds) is classified; none may reach a success path without a failure signal. "
               "Right level because the property quantifies over call site x errno, which is a finite, fully enumerable set of code shapes.",
    level_note="Decides the error-discipline clause only. Not decided: that the kernel reports a failure at all; failures "
               "swallowed inside third-party crates. Trusted: rustc MIR, library-semantics tables, main()->Result => exit status.",
    assumptions=["rustc MIR construction and trait resolution", "tables of library semantics (tables/, rules/*.py)",
                 "main() -> Result maps Err to a non-zero exit", "a panic in a joined thread surfaces as Err from join"],
)


COMMON_ASSUME = ["rustc MIR construction and trait resolution (nightly 1.97)",
                 "library-semantics tables in rules/names.py and tables/*.json",
                 "Rust ownership: Drop of the last owner runs after every borrow of the value has ended"]


def reg(pid, run, floors, controls, rule, technique, decided, not_decided, extra_assume=()):
    PROPS[pid] = dict(
        run=run, floors=floors, controls=controls, rule=rule, technique="static analysis: " + technique,
        explanation="Exhaustive static rule check over the compiled program (MIR facts of /repo's current tree). "
                    "Decides these structural clauses, each a necessary condition of the property: " + decided +
                    " It decides the shape of the code, not run-time behaviour.",
        level_text="Exhaustive static rule check over the type-checked program: " + decided,
        level_note="Not decided (remains behavioural): " + not_decided + " Trusted: rustc MIR, library-semantics tables, "
                   "Rust ownership/drop semantics.",
        assumptions=COMMON_ASSUME + list(extra_assume),
    )


import p_meta

reg("C10", p_meta.c10, {"R-ORDER": 6, "R-WHO": 8, "R-TABLE": 1}, ["r_order"],
    rule="R-ORDER never_after(fchmod, fchown); never_after(futimens, data write); each finalisation helper gated by "
         "its own Config flag with the right polarity, and conversely required when the flag says so (no path to the end of the "
         "finalisation skips it without a failure signal); R-TABLE the mode given to fchmod derives only from "
         "Metadata::permissions; R-WHO finalisation only in Drop, helpers only in finalisation, CopyHandle not Clone, "
         "no descriptor duplication, pool jobs own an Arc<CopyHandle>.",
    technique="dominance/reachability ordering rules, config-flag control dependence, provenance of the mode argument, who-may-call",
    decided="(a) fchown cannot follow fchmod and no data write can follow the timestamp setter; (b) permissions/"
            "timestamps/ownership/fsync are each guarded by their own flag with the correct polarity and cannot be skipped "
            "quietly when the flag asks for them; (e) the full "
            "source mode is applied unmasked; (d) metadata is applied only by the handle's Drop, which ownership "
            "orders after the last writer.",
    not_decided="nanosecond equality, xattr contents, effect of umask, ACL handling by the kernel.")

reg("C18", p_meta.c18, {"R-ORDER": 1, "R-WHO": 8}, ["r_order"],
    rule="gated(sync, Config.fsync, true) and required-when(fsync == true): every path to the end of the finalisation passes "
         "sync or a failure signal; never_after(fsync, data write); sync reaches fsync(2); ownership facts of C06(c).",
    technique="config-flag control dependence + ordering + ownership/who-may-call facts (no schedule exploration)",
    decided="fsync is issued iff requested (and no path through the finalisation skips it quietly when requested), inside the finalisation that only the handle's Drop runs; nothing writes "
            "data after it; the handle cannot be cloned nor its descriptors duplicated, so Drop runs after the last "
            "block job on every schedule.",
    not_decided="durability semantics of the kernel; that a failed fsync is reported is C04.")

import p_gate

reg("C03", p_gate.c03, {"R-ROLE": 30, "R-ORDER": 3, "R-WHO": 10}, ["r_order", "r_role"],
    rule="R-ROLE: no SRC-role path/descriptor reaches a mutating sink in any function of libxcp/libfs (roles inferred "
         "inter-procedurally from the drivers' (sources, dest) parameters); R-ORDER: every truncating open / rename of the "
         "destination reachable from the drivers is control-dependent on an inode-identity test (st_dev+st_ino of source vs "
         "destination) being false, and the 'same' outcome fails on every path; R-WHO: destructive primitives are called "
         "only from tabled functions; no OpenOptions chains.",
    technique="role (taint-like) inference over paths and descriptors + dominance of an inode-identity gate + who-may-call",
    decided="(a) no system call xcp issues can alter a source through its source name: sources are only ever File::open'ed "
            "and never reach a mutating sink; (b) the destination is never truncated or renamed unless it was shown not to be "
            "the source's inode, which covers spelling, symlink and hard-link aliases; (c) destructive calls are confined.",
    not_decided="bystanders reached through a destination alias other than the source (a destination symlink to an "
                "unrelated file); atime effects; kill points are covered only by the argument that no source-mutating "
                "call exists at all.")

reg("C08", p_gate.c08, {"R-ORDER": 10, "R-PROBE": 3, "R-WHO": 10}, ["r_order"],
    rule="walker: on no_clobber==true and exists(target) every path fails (Error update + Err) before any operation is "
         "queued or directory created, and all such effects are dominated by the test; both Special arms: remove_file is "
         "control-dependent on !no_clobber, the no_clobber branch fails; the existence predicates are lstat-based; "
         "destructive primitives confined; no_clobber && force rejected before the copy starts.",
    technique="control-dependence/dominance gate rules + lstat who-may-call + effect confinement",
    decided="(a) no queued operation or directory creation can happen for an entry that exists when no-clobber is set, and "
            "the run fails; (b) existence is tested without following symlinks; (c) nothing else in the code base can "
            "truncate/remove/rename; (d) the force conflict is rejected up front.",
    not_decided="the check-then-act window between the walker's probe and the worker's open (two sources mapping onto one new path).")

reg("C09", p_gate.c09, {"R-ORDER": 2, "R-TABLE": 5, "R-ERR": 8}, ["r_order", "r_err"],
    rule="CopyHandle::new: rename(to, get_backup_path(to)) is control-dependent on needs_backup, precedes the truncating "
         "open on that branch, is error-propagated, and is the only way the old file is touched; backup-name functions "
         "contain no lossy/partial OsStr->str conversion of file-name data; directory-entry errors of the scan are not "
         "swallowed; needs_backup's per-mode arms probe/scan as tabled; the scan lists the lexical parent of the destination (no "
         "canonicalize/read_link of the destination's own name in the backup logic).",
    technique="dominance/ordering + provenance of the rename target + lossy-conversion who-may-call + error discipline on the scan",
    decided="(a) the old file is preserved by one atomic rename to the computed backup name before the destination is "
            "re-created (so at every instant the old content is under one of the two names); (b) names are compared "
            "byte-exactly; (c) a failed directory read cannot lower the computed maximum; (d) the mode table; (e) earlier "
            "backups are looked for in the directory the new one is named in.",
    not_decided="N = max+1 as arithmetic, the regex's language, overflow at u64::MAX, prefix-related names (only raise N).")

reg("C13", p_gate.c13, {"R-TABLE": 2, "R-ORDER": 1, "R-ERR": 3}, ["r_order"],
    rule="tree_walker: WalkDir::follow_links(v) with v derived from config.dereference; canonicalize control-dependent on "
         "dereference and error-propagated; walk-entry errors (dangling/cyclic links reported by walkdir) propagated; the "
         "kind dispatch uses metadata of the canonicalised path.",
    technique="provenance of builder arguments + control dependence + error discipline",
    decided="directories reached through links are descended iff dereference is set, dangling/cyclic links make the walker "
            "return Err, and no Link operation can be produced from a dereferenced path.",
    not_decided="contents copied through chains; loop detection inside walkdir (third-party).")

import p_kinds
import p_thread

reg("C14", p_kinds.c14, {"R-TABLE": 12, "R-SIB": 3, "R-WHO": 3, "R-ROLE": 4}, ["r_order"],
    rule="R-TABLE: FileType -> action table of tree_walker equals {File->Copy, Symlink->Link(read_link), Dir->create_dir_all, "
         "Socket|Char|Fifo->Special, Block|Other->Err}; mknodat's device argument derives from MetadataExt::rdev and its "
         "type/mode from the same metadata's mode(); R-SIB both drivers' Special arms agree (probe -> no_clobber -> Err | "
         "remove_file -> copy_node, all error-propagated); R-WHO Special arms and copy_node reach no open/read; R-ROLE copy_node(SRC,DST).",
    technique="dispatch-table read-back from MIR switch targets + argument provenance + sibling comparison + region reachability",
    decided="which kinds are recreated, refused or failed; that the node is made from the source's st_rdev and st_mode; that it "
            "replaces an existing entry only without no-clobber; that special files are never opened.",
    not_decided="umask arithmetic; privilege (mknod of devices needs CAP_MKNOD).")

reg("C15", p_kinds.c15, {"R-TABLE": 6, "R-WHO": 6, "R-ORDER": 2}, ["r_order"],
    rule="R-WHO: libfs::reflink only from try_reflink, ioctl(FICLONE) only in reflink, copiers only below the functions that "
         "first call try_reflink; R-TABLE: Never arm reaches no clone, Always|Auto arms do; with the 'mode != Always' edges "
         "removed a failed clone cannot return Ok, with the 'mode == Always' edges removed it can; errnos mapped to "
         "'unsupported' include EOPNOTSUPP, EINVAL, EXDEV; R-ORDER: every data copy is control-dependent on try_reflink == false.",
    technique="who-may-call + enum dispatch table + path predicates with mode edges removed + errno switch table",
    decided="never issues no clone request; always can only succeed through a successful clone; auto falls back; the clone "
            "is attempted before any data copy in both drivers.",
    not_decided="what copy_file_range does inside the kernel (README caveat: it may reflink on its own).")

reg("C17", p_kinds.c17, {"R-ORDER": 2, "R-ROLE": 3, "R-TABLE": 3, "R-PROBE": 1}, ["r_order"],
    rule="matcher built iff config.gitignore; rooted at and reading .gitignore of the source root (roles); the walk is pruned "
         "with filter_entry(ignore_filter) and the filtered iterator is what is walked; the is_dir argument of "
         "Gitignore::matched derives from the walked entry's own file type, the path from the entry.",
    technique="control dependence + role inference + builder-chain provenance + lstat probe rule (narrow wiring check)",
    decided="only the wiring: that filtering happens iff requested, from the right file, by pruning, with git's notion of "
            "'directory' (a symlink is not one).",
    not_decided="that the `ignore` crate implements git's pattern language -- the heart of the property; third-party semantics.")

reg("C11", p_kinds.c11, {"R-WHO": 2, "R-ORDER": 4, "R-TABLE": 5}, ["r_order"],
    rule="allocate_file reaches ftruncate and no allocating/zero-writing call; the destination descriptor comes from a "
         "truncating File::create and is sized from the source length before Ok(handle); parfile: whole-file copy only if "
         "!probably_sparse, segment walk lengths derive from next_sparse_segments; parblock: a whole-file range is queued "
         "only if !probably_sparse or no extent map, extent ranges derive from map_extents/merge_extents; R-RANGE: each "
         "block job cut from a range satisfies off >= range.start and off + bytes <= range.end (symbolic evaluation of "
         "the splitting arithmetic; undecided where it does not resolve).",
    technique="region reachability + control dependence on the sparseness tests + provenance of range arguments + "
              "abstract interpretation of the block-splitting arithmetic in a polynomial domain",
    decided="holes are never written: pre-sizing is a pure truncate, a previous destination is discarded, sparse sources "
            "take the data-segment paths in both drivers, and no block job reaches outside the data range it was cut from.",
    not_decided="allocated size (a run-time quantity of the filesystem); the sparseness heuristic's threshold; extent paging.")

reg("C12", p_kinds.c12, {"R-ORDER": 3, "R-TABLE": 3, "R-ERR": 60, "R-THREAD": 4}, ["r_order", "r_err"],
    rule="StatusUpdate::Size is built once, in the walker, from len() of the dispatch metadata, and its send dominates the "
         "send of Operation::Copy; every StatusUpdate::Copied operand derives only from the Ok count of a libfs copier; "
         "the updater Arc is moved into copy and not retained; libxcp's error discipline (incl. pool jobs).",
    technique="dominance + provenance of update operands + ownership of the updater + error-discipline dataflow",
    decided="Size precedes the work item it announces, Copied never reports a requested length, the channel can close, and "
            "an incomplete destination implies an Error update or an Err return.",
    not_decided="sums and prefix inequalities over the stream (they follow from these facts plus channel FIFO: an argument, "
                "not a computed fact); ChannelUpdater batching arithmetic.")

reg("C16", p_kinds.c16, {"R-WHO": 2, "R-ORDER": 8, "R-SIB": 1}, ["r_order"],
    rule="blocks of main not dominated by the thread::spawn that starts the copy reach no filesystem-mutating primitive, no "
         "CopyDriver::copy/tree_walker; every Invalid* rejection is constructed in that prefix; opts_check, expand_sources "
         "and a loop over the expanded sources dominate the spawn; main's and the walker's target_base agree; with >= 2 sources "
         "and is_dir(dest) == false assumed (excluded edges removed) the spawn is unreachable except through a failure signal.",
    technique="prefix-effect rule over the call graph + dominance + must-fail reachability under assumed facts + sibling comparison",
    decided="no rejection can come after something was created/truncated/copied: validation of all sources precedes the "
            "start of the driver and touches nothing; several sources with a destination that is not a directory (missing "
            "included) never start the copy.",
    not_decided="completeness of the rejection classes for every argument position (value-dependent); clap's own parsing.")

reg("C06", p_thread.c06, {"R-ORDER": 2, "R-WHO": 10, "R-THREAD": 6, "R-SIB": 6, "R-TABLE": 3}, ["r_order", "r_err"],
    rule="(a) directories are created by the walker thread itself (Dir arm, error-propagated, no Operation carries a directory, "
         "no contents_first); (b) pool jobs reach no cursor-based I/O and the kernel copy gets explicit offsets; (c) finalisation "
         "only from Drop, handle not Clone, descriptors not duplicated, jobs own an Arc; (d) every spawn joined on every path to "
         "Ok and the pool joined before the dispatcher's Ok; (e) the two drivers agree per Operation variant; (f) R-TILE: the block jobs "
         "cut from a range tile it (first at the start, adjacent, last at the end, at least one), so the block-level driver "
         "moves the same bytes as the file-level one.",
    technique="ownership/who-may-call facts + spawn/join pairing + sibling agreement + abstract interpretation of the "
              "block-splitting arithmetic in a polynomial domain with a ceil-division lemma (no schedule exploration)",
    decided="the mechanisms that make the outcome schedule-independent: directory-before-children by construction, no shared "
            "cursor, metadata after the last writer by ownership, joins before success, driver agreement, block jobs that tile "
            "their range.",
    not_decided="equality of the final tree across schedules in general (two sources mapping onto one destination path race by design).")

reg("C07", p_thread.c07, {"R-THREAD": 18, "R-ERR": 30, "R-WHO": 3}, ["r_order", "r_err"],
    rule="work-queue sender moved (never cloned) into the walker closure, walker owns it by value; consumers use the blocking "
         "iterator; no polling primitives; all channels unbounded; updater Arc moved into copy, main's Error arm returns Err; "
         "pool jobs contain no blocking wait; wait-for graph over thread roles acyclic; every spawn joined; special files never opened; "
         "thread bodies' error paths return.",
    technique="thread/channel inventory + ownership of channel ends + wait-for graph acyclicity",
    decided="the shutdown protocol: queues close when the walker returns on any path, nobody waits on a bounded send, no cycle of "
            "waits exists, FIFOs are never opened.",
    not_decided="termination of value-dependent loops (copy_bytes vs a zero-progress kernel, map_extents vs a kernel that never sets EXTENT_LAST).")

reg("C20", p_thread.c20, {"R-THREAD": 8}, ["r_order"],
    rule="the block pool is built through Builder with a constant queue_len Q with 2*(Q+64+1)+16 <= 1024; no unbounded pool "
         "constructor; CopyHandle / Arc<CopyHandle> values never enter a Vec, channel, struct or foreign thread: they live in an "
         "iteration-local value or a job closure of the bounded pool; all channels unbounded so only the pool gives back-pressure.",
    technique="constant read-back + value confinement (escape) analysis of handles",
    decided="open descriptors are bounded by 2*(queue length + workers + 1) plus a constant, independent of the tree size.",
    not_decided="blocking_threadpool's blocking semantics (trusted); directory handles held by walkdir (bounded by its own default).")

import p_copy

reg("C01", p_copy.c01, {"R-SHORT": 9, "R-TABLE": 4, "R-ROLE": 20}, ["r_short", "r_role"],
    rule="(a) CopyHandle::new: outfd comes from a truncating File::create, allocate_file(outfd, len) with len from the opened "
         "source's metadata dominates every Ok(handle), CopyHandle is only built there; (b) R-SHORT over every call chain from "
         "the drivers to copy_file_range/pread/pwrite/read/write: each partial count is accumulated in a completing loop, "
         "compared-and-failed, or forwarded; (c) kernel copier, user-space copier and clone are reachable from both Copy arms; "
         "roles of all data-moving sinks; block jobs use explicit offsets, (R-RANGE) stay inside the range they were cut from and "
         "(R-TILE) tile it: off(lo) == start, off(idx+1) == off(idx) + bytes(idx), off(hi-1) + bytes(hi-1) >= end, a non-empty "
         "range has a job; a buffer read into at the same position on every iteration is written out inside the loop.",
    technique="short-count dataflow (partial/total function summaries) + dominance of truncate-then-size + role inference + "
              "abstract interpretation of the block-splitting arithmetic in a polynomial domain",
    decided="nothing of a previous destination survives (truncate + size from the source before any data call); no byte "
            "count returned by the kernel is dropped on a success path; data moves from the source descriptor to the "
            "destination descriptor at explicit offsets in block jobs, which lie inside the range they were cut from and (for "
            "a `lo..hi` job loop whose arithmetic resolves) tile it without gap; a short read is never overwritten in the buffer.",
    not_decided="coverage of a range by jobs of any other shape than a `lo..hi` loop with resolving expressions (listed as "
                "undecided in the evidence), the sparse walk's coverage, and byte equality itself: numeric/relational over "
                "run-time values.")

reg("C02", p_copy.c02, {"R-ROLE": 20, "R-TABLE": 9, "R-ERR": 8, "R-SIB": 9}, ["r_role", "r_err"],
    rule="R-ROLE: every filesystem-creating/mutating call in libxcp/libfs receives a DST-role path (dest or dest.join(rel)); "
         "Operation::{Copy,Special}(SRC,DST), Link(read_link text, DST); R-TABLE FileType->action; R-ERR on every creation "
         "call; R-SIB the two drivers agree per variant and main's target_base agrees with the walker's.",
    technique="role inference + dispatch-table read-back + error discipline + sibling agreement",
    decided="nothing is created from a source-side or mixed path; each kind is dispatched to the right creation; link text "
            "is the read_link result; a failed creation cannot be followed by success; the mapping rule is computed "
            "identically in validation and in the walk.",
    not_decided="that the mapping rule equals cp's for all spellings, trailing slashes and glob expansions; that untouched "
                "entries stay untouched beyond role confinement; link-text equality at run time.")

reg("C05", p_copy.c05, {"R-SHORT": 9, "R-ERR": 60, "R-WHO": 2}, ["r_short", "r_err"],
    rule="R-SHORT in the default build and in the build without the Linux backend; R-ERR on the same chains; every caller "
         "of try_copy_file_range reaches a user-space copier for the None (ENOSYS/EPERM/EXDEV) answer; buffer discipline: a loop "
         "that reads into the same buffer position on every iteration writes it out inside the loop (or the read position advances).",
    technique="short-count dataflow over two build configurations + error discipline + fallback reachability",
    decided="a short count from copy_file_range/pread/pwrite/read/write is always retried to completion, checked against the "
            "request, or surfaces as Err; an unsupported facility takes a fallback whose consumer reaches the user-space "
            "copier or propagates; the user-space copier writes out what a short read delivered before reading again into the "
            "same buffer position.",
    not_decided="byte placement by the kernel; the zero-progress case (a 0 return inside the requested range arises only "
                "from concurrent truncation); which errnos fall back is not a condition of the property.")

import p_sparse

reg("C19", p_sparse.c19, {"R-OWN": 4, "R-TABLE": 6, "R-ORDER": 1}, ["r_order"],
    rule="map_extents: the push of each kernel-reported extent dominates the latch of the loop over the mapped extents; "
         "start <- fe_logical, end <- fe_logical + fe_length. merge_extents: libfs::Extent is move-only (no Copy/Clone/Drop), "
         "and every extent taken (loop item, pending `prev`) is pushed, kept pending or has its boundary merged on every "
         "path to the latch/return; a merged extent's start/end are plain copies (or max/min) of input start/end; where the end "
         "is a plain copy of the next extent's end, the test leading to the merge bounds its start from below by the pending "
         "extent's end (merging never shrinks the map); the pending extent is pushed at the end. next_sparse_segments: returned offsets come only from SEEK_DATA/SEEK_HOLE answers or the file "
         "length; the hole search starts at the data offset found.",
    technique="ownership (linearity) of extent values over the CFG + provenance of range boundaries + dominance",
    decided="coverage is never dropped by xcp's own code: every extent the kernel reports is forwarded, merging consumes "
            "every input, begins/ends at input boundaries and never shrinks the pending extent, segment offsets are the kernel's answers.",
    not_decided="that the kernel's extents are ordered, non-overlapping and that bytes outside them read as zero (kernel "
                "semantics); whether `p.end + 1` is the right adjacency constant, and FIEMAP paging termination (arithmetic over run-time values). "
                "This is a narrow claim: the relation between the map and the file's bytes itself is not decided.")

NOT_APPLICABLE = {}
for _p in ["C01","C02","C03","C05","C06","C07","C08","C09","C10","C11","C12","C13","C14","C15","C16","C17","C18","C20"]:
  if _p not in PROPS:
    NOT_APPLICABLE.setdefault(_p, "check under construction in this session (rule family not yet armed); will be claimed per DESIGN.md section 4")
