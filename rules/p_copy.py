"""C01 (byte-identical on exit 0), C02 (tree mirrors source), C05 (short counts / missing facilities)."""
from engine import Ob, mkkey, anchor_ob
import q
import r_order as ro
import r_err
import r_short
import p_gate
import p_kinds
import p_meta
import p_role
from names import *

def _uspace(r):
    """A user-space copy is reachable: a read primitive and a write primitive (whatever helper functions hold them)."""
    return any(x in r for x in (READ, PREAD)) and any(x in r for x in (WRITE, WRITE_ALL, PWRITE))


def copiers_wired(fx):
    """C01(c): from each worker role's Copy arm the kernel copier, a user-space copier, the clone call, the
    truncating open and the pre-sizing are reachable."""
    import views
    obs = []
    W = views.workers(fx)
    if len(W) < 2:
        obs.append(anchor_ob("R-WHO", "two worker roles dispatching on Operation (found %d)" % len(W)))
    for lab, f in W:
        fv, regs = p_kinds.op_regions(fx, f)
        if "Copy" not in regs:
            obs.append(anchor_ob("R-WHO", "%s Copy arm" % lab))
            continue
        r = q.view_reach(fx, f, regs["Copy"])
        clone = set(p_kinds.clone_api(fx)) or {"libfs::linux::reflink"}
        for what, names_ in (("kernel copy_file_range", {COPY_FILE_RANGE}), ("user-space copier", None),
                             ("clone request", clone), ("truncating open", {FILE_CREATE}),
                             ("pre-sizing ftruncate", {FTRUNCATE})):
            ok = _uspace(r) if names_ is None else any(n in r for n in names_)
            obs.append(Ob("R-WHO", mkkey("R-WHO", lab, "Copy-arm reaches", 0, what), ok, f.loc(), lab,
                          "%s Copy arm reaches the %s: %s" % (lab, what, ok)))
    return obs


def fallback_consumers(fx, cfgname="A"):
    """C05: every exported libfs function that may issue copy_file_range can also copy in user space (the kernel
    call may be unavailable); that the fallback is *taken* on ENOSYS/EPERM/EXDEV is R-ERR's tolerated-code rule."""
    obs = []
    cg = q.callgraph(fx)
    n = 0
    for g in ro.fns_in_scope(fx, crates=("libfs",)):
        if g.is_closure or not (g.raw.get("exported") or g.raw.get("reachable")):
            continue
        r = cg.reach(g.path)
        if COPY_FILE_RANGE not in r:
            continue
        n += 1
        ok = _uspace(r)
        obs.append(Ob("R-WHO", mkkey("R-WHO", g.path, COPY_FILE_RANGE, 0, "fallback"), ok, g.loc(), g.path,
                      "%s can fall back to a user-space copier when the kernel copy is unsupported: %s" % (g.path.split("::")[-1], ok),
                      cfg=cfgname))
    if cfgname == "A" and n < 2:
        obs.append(anchor_ob("R-WHO", "exported libfs functions using copy_file_range (found %d)" % n, cfg=cfgname))
    return obs


def backend_totality_agreement(fx, summ, fb, summb):
    """C05 (R-SIB): the callers in libxcp are written against the default backend.  An exported copier that
    *completes* its request there (its callers do not loop) must complete it in the fallback backend too: a
    sibling that may return a short count leaves bytes uncopied on a success path."""
    obs = []
    def exported(fx_):
        out = {}
        for g in ro.fns_in_scope(fx_, crates=("libfs",)):
            if not g.is_closure and (g.raw.get("exported") or g.raw.get("reachable")):
                out.setdefault(g.path.split("::")[-1], []).append(g)
        return out
    ea, eb = exported(fx), exported(fb)
    n = 0
    for name, gs in sorted(eb.items()):
        if name not in ea:
            continue
        pa = any(g.path in summ for g in ea[name])
        for g in gs:
            pb = g.path in summb
            if not pb and not pa:
                # both complete: counted only for copiers (functions that reach a partial primitive)
                if not (set(q.callgraph(fb).reach(g.path)) & r_short.PRIMITIVES):
                    continue
            n += 1
            ok = pa or not pb
            obs.append(Ob("R-SIB", mkkey("R-SIB", name, "backend-totality", 0), ok, g.loc(), g.path,
                          "%s: default backend %s, fallback backend %s%s" % (
                              name, "may return a short count (callers loop)" if pa else "completes the request",
                              "may return a short count" if pb else "completes the request",
                              "" if ok else " -- the callers, written against the default backend, do not loop"), cfg="B"))
    if n < 2:
        obs.append(anchor_ob("R-SIB", "exported copiers present in both backends (found %d)" % n, cfg="B"))
    return obs


def short_counts(fx, cfgname="A"):
    reach = p_gate.driver_reach(fx) if cfgname == "A" else None
    obs, summ = r_short.run(fx, cfgname, reach=reach)
    return obs, summ


def c01(ctx):
    fx = ctx.fx("A")
    ctx.add(p_kinds.truncate_then_size(fx))
    ctx.add([o for o in p_meta.ownership_facts(fx) if "construct CopyHandle" in o.key])
    obs, summ = short_counts(fx)
    ctx.add(obs)
    ctx.rep.extra["partial_functions"] = summ
    ctx.add(copiers_wired(fx))
    ctx.add(p_gate.extents_forwarded(fx))
    ctx.add([o for o in p_gate.helpers_always_apply(fx) if "allocate_file" in o.key])
    data_sinks = ("copy_file_bytes", "copy_file_offset", "try_copy_file_range", "copy_file_range", "copy_bytes_uspace",
                  "copy_range_uspace", "read_bytes", "write_bytes", "pread", "pwrite", "Read::read", "write_all",
                  "allocate_file", "ftruncate", "File::open", "File::create", "CopyHandle", "next_sparse_segments", "reflink", "ioctl")
    ctx.add([o for o in p_role.role_obs(fx) if any(d in o.key for d in data_sinks)])
    # block jobs address the file by explicit offsets
    import p_thread
    ctx.add(p_thread.block_jobs_offset_only(fx))
    import p_range
    ctx.add(p_range.jobs_within_range(fx))
    ctx.rep.extra["range_arithmetic"] = dict(decided=p_range.jobs_within_range.decided, undecided=p_range.jobs_within_range.notes)
    import p_buf
    ctx.add(p_buf.buffers_drained(fx, "A"))
    # ... and together cover it (tiling: first at the start, adjacent, last at the end, at least one)
    import p_tile
    ctx.add(p_tile.jobs_tile_range(fx))
    ctx.rep.extra["range_tiling"] = dict(decided=p_tile.jobs_tile_range.decided, undecided=p_tile.jobs_tile_range.notes)


def c05(ctx):
    fx = ctx.fx("A")
    obs, summ = short_counts(fx)
    ctx.add(obs)
    ctx.rep.extra["partial_functions"] = {"A": summ}
    ctx.add(fallback_consumers(fx))
    ctx.add([o for o in p_kinds.parblock_ranges(fx) if "no-extents" in o.key or "whole-file" in o.key or "ANCHOR" in o.key])
    ctx.add([o for o in r_err.run(fx, crates=("libfs",))])
    ctx.add([o for o in r_err.run(fx, crates=("libxcp",)) if o.fn in (COPY_BYTES, COPY_SPARSE, COPY_FILE, TRY_REFLINK,
                                                                      PB_QFB, PB_QFR, PB_QFR + "::{closure#0}")])
    fb = ctx.fx("B")
    obs, summb = r_short.run(fb, "B")
    ctx.add(obs)
    ctx.rep.extra["partial_functions"]["B"] = summb
    ctx.add(backend_totality_agreement(fx, summ, fb, summb))
    # a buffer filled by a (possibly short) read is written out before the next read overwrites it
    import p_buf
    ctx.add(p_buf.buffers_drained(fx, "A"))
    na = list(p_buf.buffers_drained.notes)
    ctx.add(p_buf.buffers_drained(fb, "B"))
    ctx.rep.extra["buffer_discipline_undecided"] = na + list(p_buf.buffers_drained.notes)
    ctx.add([o for o in r_err.run(fb, crates=("libfs",), cfgname="B")])


def creation_errors(fx):
    """C02(c): a failed creation of any kind cannot be followed by Ok."""
    keep = ("create_dir_all", "symlink", "copy_node", "CopyHandle::new", "File::create", "mknodat", "queue_file_blocks",
            "read_link", "and_then")
    return [o for o in r_err.run(fx, crates=("libxcp", "libfs")) if any(k in o.key for k in keep)]


def c02(ctx):
    fx = ctx.fx("A")
    ctx.add(p_role.role_obs(fx, which=("mutating",)))
    ctx.add([o for o in p_role.role_obs(fx) if "Operation" in o.key or "symlink" in o.key or "read_link" in o.key])
    ctx.add(p_kinds.filetype_table(fx))
    ctx.add(creation_errors(fx))
    ctx.add(p_kinds.arms_must_create(fx))
    ctx.add(p_kinds.sibling_agreement(fx))
    ctx.add(p_kinds.target_base_agreement(fx))
    ctx.add(p_gate.destructive_confined(fx))
