"""R-TILE: the block jobs cut from a range tile it (C01, C06) -- the coverage half that R-RANGE leaves open.

The parblock driver cuts `range` into jobs inside `for idx in lo..hi { job(off(idx), bytes(idx)) }`.  R-RANGE proves
every job lies inside the range.  That the jobs together *cover* it follows from four obligations over the same
symbolic expressions (rules/poly.py), each an inequality between polynomials:

  T0  a non-empty range has at least one job         (hi - lo) * B >= range.end - range.start   (B: the clamp of `bytes`)
  T1  the first job starts at the start              off(lo) == range.start
  T2  consecutive jobs are adjacent                  off(idx+1) == off(idx) + bytes(idx)        for idx <= hi - 2
  T3  the last job ends at the end                   off(hi-1) + bytes(hi-1) >= range.end       (<= is R-RANGE)

With T1-T3 the jobs [off(i), off(i)+bytes(i)) chain from start to end without a gap, by induction on idx; T0 covers
the case of no iteration.  The prover is the bound-substitution prover of poly.py extended with what ceil-division
needs: for D = a / b, D*b lies in [a - b + 1, a] and equals a where the path says a % b == 0 (guard facts recorded
for `if a % b > 0 {1} else {0}`), div_ceil(a, b) * b lies in [a, a + b - 1]; min()/max() are split universally on the
side where a one-sided bound is not enough.  No solver, no execution.

A verdict is given only when every expression resolves completely and has the `lo..hi` loop shape; anything else
(accumulated offsets, while loops, helper iterators, unresolved atoms, a job that some iteration can skip) is listed
as undecided and nothing is claimed.
"""
from cfg import cfg_of
from engine import Ob, mkkey
import q
import poly
from poly import Poly
import p_range


class Prover:
    def __init__(self, ps, idx=None, idx_upper=None, idx_value=None):
        self.ps = ps
        self.idx = idx
        self.idx_upper = idx_upper     # replaces the recorded (strict) upper bound of the loop index for this goal
        self.idx_value = idx_value     # the goal is about this particular iteration (guards are judged with it)
        self.steps = 0

    # -- facts a guard gives
    @staticmethod
    def _single_atom(p):
        if len(p.t) == 1 and list(p.t.values()) == [1] and len(list(p.t)[0]) == 1:
            return list(p.t)[0][0]
        return None

    def _guard_facts(self, rel):
        """(zero atoms, non-zero atoms) implied by a guard `A op B is truth`."""
        if rel is None:
            return frozenset(), frozenset()
        op, A, B, truth = rel
        if not A.t and B.t:        # constant on the left: mirror
            A, B = B, A
            op = {"Gt": "Lt", "Lt": "Gt", "Ge": "Le", "Le": "Ge"}.get(op, op)
        x = self._single_atom(A)
        if x is None or any(k for k in B.t):
            return frozenset(), frozenset()
        k = B.t.get((), 0)
        is_zero = (op == "Gt" and k == 0 and not truth) or (op == "Ne" and k == 0 and not truth) or (op == "Eq" and k == 0 and truth) \
            or (op == "Ge" and k == 1 and not truth) or (op == "Lt" and k == 1 and truth) or (op == "Le" and k == 0 and truth)
        non_zero = (op == "Gt" and k == 0 and truth) or (op == "Ne" and k == 0 and truth) or (op == "Eq" and k == 0 and not truth) \
            or (op == "Ge" and k == 1 and truth) or (op == "Lt" and k == 1 and not truth) or (op == "Le" and k == 0 and not truth)
        return (frozenset([x]) if is_zero else frozenset()), (frozenset([x]) if non_zero else frozenset())

    def _refuted(self, rel, zero, nz, depth):
        """The guard cannot hold in the iteration / index range this goal is about."""
        if rel is None:
            return False
        op, A, B, truth = rel
        if self.idx is not None and self.idx_value is not None:
            A = _deep_subst(self.ps, A, self.idx, self.idx_value, "g")
            B = _deep_subst(self.ps, B, self.idx, self.idx_value, "g")
        d = A - B
        one = Poly.const(1)
        pr = lambda q_: self.prove(q_, zero, nz, depth + 1)
        if not truth:
            op = {"Eq": "Ne", "Ne": "Eq", "Lt": "Ge", "Ge": "Lt", "Gt": "Le", "Le": "Gt"}[op]
        if op == "Eq":
            return pr(d - one) or pr(-d - one)
        if op == "Ne":
            return pr(d) and pr(-d)
        if op == "Lt":          # A < B refuted by A >= B
            return pr(d)
        if op == "Le":
            return pr(d - one)
        if op == "Gt":
            return pr(-d)
        if op == "Ge":
            return pr(-d - one)
        return False

    # -- helpers
    def _minmax_args(self, a):
        if a.startswith("min("):
            return "min", self.ps.upper.get(a, [])
        if a.startswith("max("):
            return "max", self.ps.lower.get(a, [])
        return None, []

    def _rem_atom(self, A, B):
        nm = "rem(%s, %s)" % (A, B)
        ps = self.ps
        if nm not in ps.known:
            ps.known[nm] = "integer rem (introduced by the division lemma)"
            ps.divinfo[nm] = ("Rem", A, B)
            ps.upper[nm] = [A, B]
        return nm

    def _div_bounds(self, a, zero, nz):
        """(beta, lower, upper) of D*beta for the quotient atom a = D with the single-atom divisor beta, or None.
        a / b * b == a - a % b;  div_ceil(a, b) * b == a when a % b == 0, a - a % b + b otherwise."""
        info = self.ps.divinfo.get(a)
        if not info:
            return None
        op, A, B = info
        beta = self._single_atom(B)
        if beta is None or op not in ("Div", "DivCeil"):
            return None
        R = self._rem_atom(A, B)
        Rp = Poly() if R in zero else Poly.atom(R)
        if op == "Div":
            return beta, A - Rp, A - Rp
        if R in zero:
            return beta, A, A
        if R in nz:
            return beta, A - Rp + B, A - Rp + B
        return beta, A, A + B - Poly.const(1)

    def prove(self, p, zero=frozenset(), nz=frozenset(), depth=0):
        self.steps += 1
        if self.steps > 20000 or depth > 12:
            return False
        for z in zero:
            if z in p.atoms():
                p = p.subst(z, Poly())
        if p.nonneg():
            return True
        ps = self.ps
        # 1. a value that is one of several, by control flow: every alternative whose guard can hold here, with the
        #    facts that guard gives (substituted inside min/max arguments as well: the same choice everywhere)
        for a in sorted(ps.phi):
            if _mentions(ps, p, a):
                gs = ps.phi_guard.get(a) or [dict(rel=None, known=True)] * len(ps.phi[a])
                todo = []
                for alt, g_ in zip(ps.phi[a], gs):
                    if self._refuted(g_["rel"], zero, nz, depth):
                        continue
                    z, n_ = self._guard_facts(g_["rel"])
                    todo.append((alt, zero | z, nz | n_))
                return all(self.prove(_deep_subst(ps, p, a, alt, "%s=%s" % (a, alt)), z, n_, depth + 1) for alt, z, n_ in todo)
        # 2. remainder atoms: 0 <= a % b <= b - 1
        # 3. products D*beta of a quotient and its divisor
        for k, v in sorted(p.t.items()):
            for a in sorted(set(k)):
                db = self._div_bounds(a, zero, nz)
                if db is None:
                    continue
                beta, lo, hi = db
                if beta not in k or k.count(a) != 1:
                    continue
                rest = list(k)
                rest.remove(a)
                rest.remove(beta)
                term = Poly({(): v}) * (lo if v > 0 else hi)
                for x in rest:
                    term = term * Poly.atom(x)
                q_ = Poly({kk: vv for kk, vv in p.t.items() if kk != k}) + term
                if self.prove(q_, zero, nz, depth + 1):
                    return True
        # 4. min / max
        for k, v in sorted(p.t.items()):
            for a in sorted(set(k)):
                kind, args = self._minmax_args(a)
                if kind is None or k.count(a) != 1 or len(args) < 1:
                    continue
                # the side where one bound suffices
                one_sided = (kind == "min" and v < 0) or (kind == "max" and v > 0)
                alts = [poly.Sym._subst_in_term(p, k, a, b) for b in args]
                if one_sided:
                    if any(self.prove(x, zero, nz, depth + 1) for x in alts):
                        return True
                elif len(args) == 2 and a not in ps.weak:
                    # min(x, y) is x or y: both must do
                    if all(self.prove(x, zero, nz, depth + 1) for x in alts):
                        return True
        # 5. one-sided bounds of the loop index and other bounded atoms
        for k, v in sorted(p.t.items()):
            for a in sorted(set(k)):
                if k.count(a) != 1 or a.startswith(("min(", "max(")):
                    continue
                if a == self.idx and v < 0 and self.idx_upper is not None:
                    bounds = [self.idx_upper]
                elif a == self.idx and v < 0:
                    bounds = [b - Poly.const(1) for b in ps.upper.get(a, [])]      # idx < hi
                elif (ps.divinfo.get(a) or ("",))[0] == "Rem" and v < 0:
                    bounds = [ps.divinfo[a][2] - Poly.const(1)] + ps.upper.get(a, [])
                else:
                    bounds = ps.lower.get(a, []) if v > 0 else ps.upper.get(a, [])
                    if v > 0 and a in nz:
                        bounds = [Poly.const(1)] + list(bounds)
                for b in bounds:
                    q_ = poly.Sym._subst_in_term(p, k, a, b)
                    if q_ is not None and self.prove(q_, zero, nz, depth + 1):
                        return True
        return False

    def prove_zero(self, p):
        return self.prove(p) and self.prove(-p)


def _deep_subst(ps, p, a, val, tag):
    """p with atom a replaced by val, also inside the argument polynomials of min/max atoms (fresh atoms are made)."""
    out = Poly()
    for k, v in p.t.items():
        term = Poly({(): v})
        for x in k:
            if x == a:
                term = term * val
            elif x.startswith(("min(", "max(")):
                tbl = ps.upper if x.startswith("min(") else ps.lower
                args = tbl.get(x, [])
                if any(a in b.atoms() or any(y.startswith(("min(", "max(")) for y in b.atoms()) for b in args):
                    nargs = [_deep_subst(ps, b, a, val, tag) for b in args]
                    nx = "%s%s[%s]" % (x[:4], ", ".join(map(repr, nargs)), tag)
                    tbl[nx] = nargs
                    ps.known[nx] = "min/max with the loop index substituted"
                    if x in ps.weak:
                        ps.weak.add(nx)
                    term = term * Poly.atom(nx)
                else:
                    term = term * Poly.atom(x)
            else:
                term = term * Poly.atom(x)
        out = out + term
    return out


def _mentions(ps, p, a, seen=None):
    seen = set() if seen is None else seen
    for x in p.atoms():
        if x == a:
            return True
        if x in seen:
            continue
        seen.add(x)
        for tbl in (ps.upper, ps.lower):
            if x.startswith(("min(", "max(")):
                if any(_mentions(ps, b, a, seen) for b in tbl.get(x, [])):
                    return True
    return False


def _every_iteration(pv, pb):
    """Block pb lies in a loop and dominates every back edge of the innermost such loop."""
    g = cfg_of(pv)
    best = None
    for (u, h) in g.back_edges():
        body = g.natural_loop((u, h))
        if pb in body and (best is None or len(body) < len(best[1])):
            best = (h, body)
    if best is None:
        return None
    h, body = best
    us = [u for (u, hh) in g.back_edges() if hh == h]
    return all(g.dominates(pb, u) for u in us)


def jobs_tile_range(fx):
    obs, notes = [], []
    n = 0
    for site in p_range.job_sites(fx, notes):
        g, t, pv, pb, ps, off, nbytes, start, end, key = site
        loc = q.loc_of(t)
        idxs = sorted(a for a in ps.known if a.startswith("idx@") and (_mentions(ps, off, a) or _mentions(ps, nbytes, a)))
        if len(idxs) != 1 or not _mentions(ps, off, idxs[0]):
            notes.append(dict(site=loc, rule="R-TILE", undecided="the offset is not a function of exactly one `lo..hi` loop index",
                              off=repr(off), bytes=repr(nbytes)))
            continue
        I = idxs[0]
        if len(ps.lower.get(I, [])) != 1 or len(ps.upper.get(I, [])) != 1:
            notes.append(dict(site=loc, rule="R-TILE", undecided="loop bounds do not resolve"))
            continue
        lo, hi = ps.lower[I][0], ps.upper[I][0]
        allp = [off, nbytes, lo, hi, start, end]
        involved = set()
        for x in allp:
            involved |= x.atoms()
        if any(not ps.decided(x) for x in allp) or ps.weak_in(off + nbytes + lo + hi):
            notes.append(dict(site=loc, rule="R-TILE", undecided="expression does not resolve",
                              off=repr(off), bytes=repr(nbytes), lo=repr(lo), hi=repr(hi)))
            continue
        ev = _every_iteration(pv, pb)
        if not ev:
            notes.append(dict(site=loc, rule="R-TILE", undecided="the job is not built on every iteration of a loop"))
            continue
        one = Poly.const(1)
        Iat = Poly.atom(I)
        off_lo = _deep_subst(ps, off, I, lo, "idx=lo")
        off_next = _deep_subst(ps, off, I, Iat + one, "idx+1")
        off_last = _deep_subst(ps, off, I, hi - one, "idx=hi-1")
        bytes_last = _deep_subst(ps, nbytes, I, hi - one, "idx=hi-1")
        goals = []
        # T1
        goals.append(("first-at-start", "off(lo) == range.start", lambda: Prover(ps, I, idx_value=lo).prove_zero(off_lo - start)))
        # T2
        step = off_next - off - nbytes
        goals.append(("adjacent", "off(idx+1) == off(idx) + bytes(idx) for idx <= hi-2",
                      lambda: Prover(ps, I, hi - one - one).prove(step) and Prover(ps, I, hi - one - one).prove(-step)))
        # T3
        goals.append(("last-at-end", "off(hi-1) + bytes(hi-1) >= range.end",
                      lambda: Prover(ps, I, idx_value=hi - one).prove(off_last + bytes_last - end)))
        # T0
        clamp = None
        for a in nbytes.atoms():
            if a.startswith("min(") and nbytes.t.get((a,)) == 1 and len(nbytes.t) == 1:
                cands = [b for b in ps.upper.get(a, []) if not _mentions(ps, b, I)]
                if cands:
                    clamp = cands
        if clamp:
            goals.append(("some-job", "(hi - lo) * clamp >= range.end - range.start",
                          lambda: any(Prover(ps, I).prove((hi - lo) * c - (end - start)) for c in clamp)))
        else:
            notes.append(dict(site=loc, rule="R-TILE", goal="some-job", undecided="`bytes` is not a clamp min(.., B) with B free of the index"))
        for what, txt, fn in goals:
            ok = fn()
            n += 1
            obs.append(Ob("R-TILE", mkkey("R-TILE", g.root, key.split("::")[-1], 0, what), ok, loc, g.path,
                          "block jobs tile the range, %s: off = %s, bytes = %s, idx in [%s, %s), range = [%s, %s): %s" % (
                              txt, off, nbytes, lo, hi, start, end,
                              "follows from the arithmetic" if ok else "does NOT follow: some bytes of the range are in no job (or in two)"),
                          None if ok else dict(off=repr(off), bytes=repr(nbytes), lo=repr(lo), hi=repr(hi), goal=what)))
    jobs_tile_range.notes = notes
    jobs_tile_range.decided = n
    return obs
