"""Generic graph machinery over the MIR facts: CFG (cleanup/unwind edges
excluded -- a panic is a loud failure, not a path to success), dominators,
post-dominators, reachability, edge-dominance, loops, def-use, backward
provenance and forward value flow.
"""
from collections import defaultdict, deque


# --------------------------------------------------------------------------
# helpers over raw JSON nodes
# --------------------------------------------------------------------------

def op_place(o):
    if "cp" in o:
        return o["cp"]
    if "mv" in o:
        return o["mv"]
    return None


def op_local(o):
    p = op_place(o)
    return None if p is None else p["l"]


def op_const(o):
    return o.get("c")


def rv_operands(rv):
    """All operands (as operand dicts) and places (as place dicts) read by an rvalue."""
    k = rv["k"]
    ops, places = [], []
    if k in ("use", "repeat", "cast"):
        ops.append(rv["op"])
    elif k in ("ref", "rawptr", "discr"):
        places.append(rv["pl"])
    elif k == "bin":
        ops += [rv["a"], rv["b"]]
    elif k == "un":
        ops.append(rv["a"])
    elif k == "agg":
        ops += rv["fields"]
    return ops, places


def rv_read_locals(rv):
    ops, places = rv_operands(rv)
    out = []
    for o in ops:
        l = op_local(o)
        if l is not None:
            out.append(l)
    for p in places:
        out.append(p["l"])
    return out


def place_fields(p):
    """[(adt, fieldname)] named field projections of a place."""
    out = []
    for e in p.get("p", []):
        if isinstance(e, dict) and "f" in e:
            out.append((e.get("adt"), e.get("n") if e.get("n") is not None else e["f"]))
    return out


def place_has_deref(p):
    return any(e == "deref" for e in p.get("p", []))


def callee_path(t):
    f = t.get("fn") or {}
    return f.get("path")


def callee_orig(t):
    f = t.get("fn") or {}
    return f.get("orig")


def span_in_macro(sp, names):
    """True if the span's expansion chain contains a macro whose name (before '|') or def path is in names."""
    for c in sp.get("chain", []):
        nm, _, dp = c.partition("|")
        if nm in names or dp in names:
            return True
    m = sp.get("mac")
    return bool(m and (m in names or sp.get("mac_def") in names))


LOG_MACROS = {"log::error", "log::warn", "log::info", "log::debug", "log::trace", "log::log", "log::__log",
              "$crate::__log", "error", "warn", "info", "debug", "trace", "log"}


def is_log_span(sp):
    """Span produced inside a log!-family macro (identified by macro def path, never by text)."""
    for c in sp.get("chain", []):
        nm, _, dp = c.partition("|")
        if dp.startswith("log::"):
            return True
    md = sp.get("mac_def") or ""
    return md.startswith("log::")


def is_fmt_span(sp):
    for c in sp.get("chain", []):
        nm, _, dp = c.partition("|")
        if dp.startswith("core::format_args") or dp.startswith("alloc::format") or dp.startswith("std::format") \
                or nm in ("format_args", "format", "$crate::__private_api::format_args"):
            return True
    return sp.get("astpass") is not None and False


# --------------------------------------------------------------------------
# CFG
# --------------------------------------------------------------------------

def whole_defs(fn, l):
    """Sites that assign the whole of local l, copies of one original statement (variant threading duplicates
    blocks) counted once."""
    du = defuse(fn)
    out, seen = [], set()
    for s_, whole in du.defs.get(l, []):
        if not whole:
            continue
        k = (fn.blocks[s_.bb].get("src_block", s_.bb), s_.is_term, getattr(s_, "idx", None))
        if k in seen:
            continue
        seen.add(k)
        out.append(s_)
    return out


class CFG:
    def __init__(self, fn):
        self.fn = fn
        bl = fn.blocks
        n = len(bl)
        self.n = n
        self.cleanup = [bool(b.get("cleanup")) for b in bl]
        self.succ = [[] for _ in range(n)]
        for i, b in enumerate(bl):
            if self.cleanup[i]:
                continue
            t = b["term"]
            k = t["k"]
            s = []
            if k in ("goto", "drop", "assert"):
                s = [t["target"]]
            elif k == "call":
                if t.get("target") is not None:
                    s = [t["target"]]
            elif k == "switch":
                s = [b2 for _, b2 in t["targets"]] + [t["otherwise"]]
            # return / unreachable / resume / abort: none
            seen = []
            for x in s:
                if x not in seen and not self.cleanup[x]:
                    seen.append(x)
            self.succ[i] = seen
        self.pred = [[] for _ in range(n)]
        for i in range(n):
            for s in self.succ[i]:
                self.pred[s].append(i)
        self.returns = [i for i, b in enumerate(bl) if not self.cleanup[i] and b["term"]["k"] == "return"]
        self._idom = None
        self._reach0 = None

    # ---- reachability -------------------------------------------------
    def reach(self, starts, blocked=(), blocked_edges=()):
        """Blocks reachable from starts (inclusive) without entering `blocked` blocks or using blocked edges."""
        blocked = set(blocked)
        be = set(blocked_edges)
        seen = set()
        dq = deque(s for s in starts if s not in blocked)
        while dq:
            x = dq.popleft()
            if x in seen:
                continue
            seen.add(x)
            for s in self.succ[x]:
                if s in blocked or (x, s) in be or s in seen:
                    continue
                dq.append(s)
        return seen

    def reachable(self):
        if self._reach0 is None:
            self._reach0 = self.reach([0])
        return self._reach0

    def can_reach(self, a, b, blocked=()):
        """Is there a path a ->+ b (at least one edge) avoiding blocked blocks?"""
        starts = [s for s in self.succ[a] if s not in set(blocked)]
        return b in self.reach(starts, blocked)

    # ---- dominators (iterative, Cooper-Harvey-Kennedy) -----------------
    def _rpo(self):
        seen, order = set(), []
        stack = [(0, iter(self.succ[0]))]
        seen.add(0)
        while stack:
            node, it = stack[-1]
            adv = False
            for s in it:
                if s not in seen:
                    seen.add(s)
                    stack.append((s, iter(self.succ[s])))
                    adv = True
                    break
            if not adv:
                order.append(node)
                stack.pop()
        order.reverse()
        return order

    def idom(self):
        if self._idom is not None:
            return self._idom
        rpo = self._rpo()
        idx = {b: i for i, b in enumerate(rpo)}
        idom = {0: 0}
        changed = True
        while changed:
            changed = False
            for b in rpo[1:]:
                ps = [p for p in self.pred[b] if p in idom]
                if not ps:
                    continue
                new = ps[0]
                for p in ps[1:]:
                    a, c = p, new
                    while a != c:
                        while idx[a] > idx[c]:
                            a = idom[a]
                        while idx[c] > idx[a]:
                            c = idom[c]
                    new = a
                if idom.get(b) != new:
                    idom[b] = new
                    changed = True
        self._idom = idom
        return idom

    def dominates(self, a, b):
        """a dominates b (reflexive). Unreachable b: vacuously True."""
        idom = self.idom()
        if b not in idom:
            return True
        x = b
        while True:
            if x == a:
                return True
            if x == 0:
                return False
            x = idom[x]

    def edge_dominates(self, edge, b):
        """Every path entry -> b uses edge (u,v)."""
        if b not in self.reachable():
            return True
        return b not in self.reach([0], blocked_edges=[edge])

    def set_dominates(self, blocks, target, entry=0):
        """Every path entry -> target passes through one of `blocks` (dominance by a *set*: in a variant-threaded
        view a statement may exist in several copies, none of which dominates alone)."""
        blocks = set(blocks)
        if target in blocks:
            return True
        if not blocks:
            return target not in self.reachable()
        return target not in self.reach([entry], blocked=blocks)

    def passes_through(self, mid_blocks, src, dsts, barriers=()):
        """Every path src -> any of dsts passes through one of mid_blocks (paths are cut at `barriers`, e.g. the
        head of a per-operation loop, so that a later iteration is not mistaken for this one)."""
        r = self.reach([src], blocked=set(mid_blocks) | set(barriers))
        return not any(d in r for d in dsts)

    def back_edges(self):
        out = []
        for u in self.reachable():
            for v in self.succ[u]:
                if self.dominates(v, u):
                    out.append((u, v))
        return out

    def natural_loop(self, back_edge):
        u, h = back_edge
        body = {h}
        st = [u]
        while st:
            x = st.pop()
            if x in body:
                continue
            body.add(x)
            st.extend(self.pred[x])
        return body

    def loops(self):
        """header -> set of blocks (merged natural loops per header)."""
        res = defaultdict(set)
        for e in self.back_edges():
            res[e[1]] |= self.natural_loop(e)
        return dict(res)

    def in_cycle(self, b):
        return self.can_reach(b, b)


def cfg_of(fn):
    if fn._cfg is None:
        fn._cfg = CFG(fn)
    return fn._cfg


# --------------------------------------------------------------------------
# def-use
# --------------------------------------------------------------------------

class Site:
    """A program point: statement idx within block, or the terminator (idx == len(stmts))."""
    __slots__ = ("bb", "idx", "node", "is_term")

    def __init__(self, bb, idx, node, is_term):
        self.bb, self.idx, self.node, self.is_term = bb, idx, node, is_term

    @property
    def span(self):
        return self.node["span"]

    def __repr__(self):
        return "bb%d[%s]" % (self.bb, "T" if self.is_term else self.idx)


class DefUse:
    def __init__(self, fn):
        self.fn = fn
        self.defs = defaultdict(list)     # local -> [(Site, whole: bool)]
        self.uses = defaultdict(list)     # local -> [(Site, how)]
        cfg = cfg_of(fn)
        for bi, b in enumerate(fn.blocks):
            if cfg.cleanup[bi]:
                continue
            for si, s in enumerate(b["stmts"]):
                st = Site(bi, si, s, False)
                lhs = s["lhs"]
                self.defs[lhs["l"]].append((st, not lhs.get("p")))
                if s["rv"]["k"] != "setdiscr":
                    for l in rv_read_locals(s["rv"]):
                        self.uses[l].append((st, "rv"))
                for e in lhs.get("p", []):
                    if isinstance(e, dict) and "idx" in e:
                        self.uses[e["idx"]].append((st, "index"))
            t = b["term"]
            st = Site(bi, len(b["stmts"]), t, True)
            k = t["k"]
            if k == "call":
                d = t["dest"]
                self.defs[d["l"]].append((st, not d.get("p")))
                for ai, a in enumerate(t["args"]):
                    l = op_local(a)
                    if l is not None:
                        self.uses[l].append((st, "arg%d" % ai))
                f = t["fn"]
                if "indirect" in f:
                    l = op_local(f["indirect"])
                    if l is not None:
                        self.uses[l].append((st, "callee"))
            elif k == "switch":
                l = op_local(t["op"])
                if l is not None:
                    self.uses[l].append((st, "switch"))
            elif k == "drop":
                self.uses[t["pl"]["l"]].append((st, "drop"))
            elif k == "assert":
                l = op_local(t["cond"])
                if l is not None:
                    self.uses[l].append((st, "assert"))


_du_cache = {}


def defuse(fn):
    k = id(fn)
    if k not in _du_cache:
        _du_cache[k] = DefUse(fn)
    return _du_cache[k]


# --------------------------------------------------------------------------
# transfer tables: library calls that are "identity-like" for value flow.
# callee path prefix/suffix -> arg indices whose value flows into the result.
# --------------------------------------------------------------------------

IDENTITY_CALLS = {
    # keyed by the *unresolved* item path (`orig`: trait item or inherent fn)
    "core::ops::deref::Deref::deref": [0],
    "core::ops::deref::DerefMut::deref_mut": [0],
    "core::convert::AsRef::as_ref": [0],
    "core::borrow::Borrow::borrow": [0],
    "core::convert::From::from": [0],
    "core::convert::Into::into": [0],
    "core::clone::Clone::clone": [0],
    "core::ops::try_trait::Try::branch": [0],
    "core::ops::try_trait::FromResidual::from_residual": [0],
    "core::cmp::min": [0, 1],
    "core::cmp::Ord::min": [0, 1],
    "core::hint::must_use": [0],
    "alloc::borrow::ToOwned::to_owned": [0],
    "core::option::Option::<T>::unwrap": [0],
    "core::option::Option::<T>::expect": [0],
    "core::option::Option::<T>::ok_or": [0],
    "core::option::Option::<T>::as_ref": [0],
    "core::result::Result::<T, E>::unwrap": [0],
    "core::result::Result::<T, E>::expect": [0],
    "core::result::Result::<T, E>::map_err": [0],
    "core::result::Result::<T, E>::as_ref": [0],
    "core::convert::identity": [0],
    "core::option::Option::<core::result::Result<T, E>>::transpose": [0],
    "core::result::Result::<core::option::Option<T>, E>::transpose": [0],
    "core::option::Option::<T>::unwrap_or": [0, 1], "core::result::Result::<T, E>::unwrap_or": [0, 1],
    "core::option::Option::<T>::unwrap_or_default": [0], "core::result::Result::<T, E>::unwrap_or_default": [0],
    "core::result::Result::<T, E>::ok": [0], "core::option::Option::<T>::cloned": [0], "core::option::Option::<T>::copied": [0],
    "core::option::Option::<T>::take": [0], "core::option::Option::<T>::as_deref": [0], "core::option::Option::<T>::flatten": [0],
}


def call_names(t):
    """(orig, resolved) item paths of a call terminator (either may be None)."""
    f = t.get("fn") or {}
    return f.get("orig"), f.get("path")


def identity_args(t, table=None):
    """arg indices flowing to the result if the call is identity-like, else None.
    `t` is a call terminator; tables are keyed by orig or resolved path (exact)."""
    o, r = call_names(t)
    for tb in ((table or {}), IDENTITY_CALLS):
        if o in tb:
            return tb[o]
        if r in tb:
            return tb[r]
    return None


class Atom:
    """An origin of a value, found by backward provenance."""
    __slots__ = ("kind", "what", "site", "extra")

    def __init__(self, kind, what, site=None, extra=None):
        self.kind, self.what, self.site, self.extra = kind, what, site, extra

    def key(self):
        return (self.kind, self.what, self.site.bb if self.site else None,
                self.site.idx if self.site else None)

    def __repr__(self):
        return "%s:%s%s" % (self.kind, self.what, ("@%r" % self.site) if self.site else "")


class Prov:
    """Backward provenance of a local within one function (flow-insensitive over
    MIR's mostly single-assignment temporaries): follows moves, copies, refs,
    casts, field reads, aggregates (optionally) and identity-like calls.

    Result: atoms (args, opaque call results, constants, upvars), the set of
    named fields read along the way, and unary Not count parity is *not*
    tracked here (see gating code).
    """

    def __init__(self, fn, table=None, through_agg=True, through_bin=True, stop=None):
        self.fn = fn
        self.du = defuse(fn)
        self.table = table
        self.through_agg = through_agg
        self.through_bin = through_bin
        self.stop = stop  # optional predicate(call terminator)->bool: treat as opaque even if in table

    def origins(self, local, max_nodes=4000):
        atoms = {}
        fields = set()
        seen = set()
        work = [local]
        sites = []
        while work and len(seen) < max_nodes:
            l = work.pop()
            if l in seen:
                continue
            seen.add(l)
            dl = self.du.defs.get(l, [])
            if l <= self.fn.argc and l != 0:
                a = Atom("arg", l, None, self.fn.name_of_local.get(l))
                atoms[a.key()] = a
            for site, whole in dl:
                sites.append(site)
                n = site.node
                if site.is_term:  # call dest
                    path = callee_orig(n) or callee_path(n) or "<indirect>"
                    ia = identity_args(n, self.table)
                    if ia is not None and not (self.stop and self.stop(n)):
                        for i in ia:
                            if i < len(n["args"]):
                                a = n["args"][i]
                                al = op_local(a)
                                if al is not None:
                                    for f in place_fields(op_place(a)):
                                        fields.add(f)
                                    work.append(al)
                                elif "c" in a:
                                    at = Atom("const", _const_repr(a["c"]), site)
                                    atoms[at.key()] = at
                    else:
                        at = Atom("call", path, site)
                        atoms[at.key()] = at
                    continue
                rv = n["rv"]
                k = rv["k"]
                if k == "setdiscr":
                    continue
                if k == "agg" and not self.through_agg:
                    at = Atom("agg", rv.get("adt") or rv["ak"], site, rv.get("variant"))
                    atoms[at.key()] = at
                    continue
                if k == "bin" and not self.through_bin:
                    at = Atom("bin", rv["op"], site)
                    atoms[at.key()] = at
                    continue
                ops, places = rv_operands(rv)
                if not ops and not places:
                    at = Atom("other", k, site)
                    atoms[at.key()] = at
                for o in ops:
                    ol = op_local(o)
                    if ol is not None:
                        for f in place_fields(op_place(o)):
                            fields.add(f)
                        work.append(ol)
                    elif "c" in o:
                        at = Atom("const", _const_repr(o["c"]), site)
                        atoms[at.key()] = at
                for p in places:
                    for f in place_fields(p):
                        fields.add(f)
                    work.append(p["l"])
        return list(atoms.values()), fields, seen


def _const_repr(c):
    if "fn" in c:
        return "fn:" + c["fn"]["path"]
    if "v" in c:
        return "%s:%s" % (c["ty"], c["v"])
    if "s" in c:
        return "str:" + c["s"]
    return c["ty"]


class Flow:
    """Forward value flow from seed locals (may-analysis): which locals can hold
    (a view of / a value computed from) a seed.  `call_transfer(term, arg_i)`
    decides whether a tainted argument taints the call's destination."""

    def __init__(self, fn, table=None, through_agg=True, through_bin=True, through_field=True,
                 call_transfer=None, skip_variants=(), agg_filter=None):
        self.fn = fn
        self.du = defuse(fn)
        self.table = table
        self.through_agg = through_agg
        self.through_bin = through_bin
        self.through_field = through_field
        self.call_transfer = call_transfer
        self.skip_variants = set(skip_variants)
        self.agg_filter = agg_filter

    def _reads_skipped_variant(self, rv, l):
        """The statement reads local l only through a downcast to an excluded variant (e.g. the Err/Break payload)."""
        ops, places = rv_operands(rv)
        pls = [op_place(o) for o in ops if op_place(o) is not None] + places
        mine = [p for p in pls if p["l"] == l]
        if not mine:
            return False
        for p in mine:
            if not any(isinstance(e, dict) and e.get("dc") in self.skip_variants for e in p.get("p", [])):
                return False
        return True

    def run(self, seeds):
        tainted = set(seeds)
        parent = {}
        work = list(seeds)
        while work:
            l = work.pop()
            for site, how in self.du.uses.get(l, []):
                n = site.node
                tgt = None
                if site.is_term:
                    if n["k"] != "call" or not how.startswith("arg"):
                        continue
                    ai = int(how[3:])
                    ok = False
                    ia = identity_args(n, self.table)
                    if ia is not None and ai in ia:
                        ok = True
                    if self.call_transfer and self.call_transfer(n, ai):
                        ok = True
                    if ok:
                        tgt = n["dest"]["l"]
                else:
                    if how != "rv":
                        continue
                    rv = n["rv"]
                    k = rv["k"]
                    if k == "agg" and not self.through_agg:
                        continue
                    if k == "agg" and self.agg_filter is not None and not self.agg_filter(rv):
                        continue
                    if k == "bin" and not self.through_bin:
                        continue
                    if k == "discr":
                        continue
                    if self.skip_variants and self._reads_skipped_variant(rv, l):
                        continue
                    if not self.through_field:
                        # reading a field of the tainted local does not propagate
                        ops, places = rv_operands(rv)
                        direct = False
                        for o in ops:
                            p = op_place(o)
                            if p is not None and p["l"] == l and not place_fields(p):
                                direct = True
                        for p in places:
                            if p["l"] == l and not place_fields(p):
                                direct = True
                        if not direct:
                            continue
                    tgt = n["lhs"]["l"]
                if tgt is not None and tgt not in tainted:
                    tainted.add(tgt)
                    parent[tgt] = (l, site)
                    work.append(tgt)
        return tainted, parent

    @staticmethod
    def chain(parent, l):
        out = []
        while l in parent:
            p, site = parent[l]
            out.append((l, site))
            l = p
        out.append((l, None))
        out.reverse()
        return out
