"""R-ERR: error discipline.  Every fallible result in product code is
classified by forward def-use:

  PROPAGATED      flows into `?` (Try::branch)
  RETURNED        becomes the function's return value
  TRANSFORMED     receiver of a combinator; obligation moves to its result
  MATCHED         discriminant switched on; every path out of the Err arm that
                  reaches a return (or re-enters the loop) must carry a failure
                  signal: Err constructed into the return value, a
                  StatusUpdate::Error sent, or divergence
  UNWRAPPED       unwrap/expect: loud failure
  DISCARDED       anything else (unused, `.ok()`, `is_err()` unexamined, `let _r`)

HANDLED-LOCALLY (a MATCHED Err arm with a signal-free path) and DISCARDED are
violations unless the exact site key is in tables/allow.json.
"""
import re

from cfg import (cfg_of, defuse, op_local, op_place, callee_path, callee_orig, is_log_span, is_fmt_span,
                 place_fields, rv_operands, Prov)
from engine import Ob, mkkey

RESULT_RE = re.compile(r"^(core::option::Option<)?core::result::Result<")

PURE_ERRORS = ("core::num::error::TryFromIntError", "core::num::TryFromIntError", "std::time::SystemTimeError",
               "std::thread::local::AccessError", "std::thread::AccessError", "core::convert::Infallible",
               "core::array::TryFromSliceError", "core::char::TryFromCharError", "core::char::CharTryFromError",
               "core::alloc::layout::LayoutError", "alloc::collections::TryReserveError")

OPT_RESULT_RE = re.compile(r"^core::option::Option<core::result::Result<")

TRY_BRANCH = "core::ops::try_trait::Try::branch"
FROM_RESIDUAL = "core::ops::try_trait::FromResidual::from_residual"

COMBINATORS = {
    "core::result::Result::<T, E>::map", "core::result::Result::<T, E>::map_err",
    "core::result::Result::<T, E>::and_then", "core::result::Result::<T, E>::or_else",
    "anyhow::Context::context", "anyhow::Context::with_context",
    "core::option::Option::<T>::unwrap_or_else",   # Option<Result<..>>: None => fallback closure returns the Result
    "core::option::Option::<T>::map",
    "core::option::Option::<core::result::Result<T, E>>::transpose", "core::result::Result::<core::option::Option<T>, E>::transpose",
    "core::convert::Into::into", "core::convert::From::from",
}
UNWRAPS = {
    "core::result::Result::<T, E>::unwrap", "core::result::Result::<T, E>::expect",
    "core::result::Result::<T, E>::unwrap_err", "core::result::Result::<T, E>::expect_err",
}
# predicates: result is a bool; which value means "it failed"
PREDICATES = {
    "core::result::Result::<T, E>::is_err": 1,
    "core::result::Result::<T, E>::is_ok": 0,
}
DISCARDERS = {
    "core::result::Result::<T, E>::ok", "core::result::Result::<T, E>::err",
    "core::result::Result::<T, E>::unwrap_or", "core::result::Result::<T, E>::unwrap_or_default",
    "core::result::Result::<T, E>::unwrap_or_else", "core::mem::drop",
    "core::result::Result::<T, E>::is_ok_and", "core::result::Result::<T, E>::is_err_and",
}
# C-style status returns: non-zero means failure
STATUS_INT_CALLS = {"libc::unix::linux_like::linux::ioctl"}
# Option<Error>-returning APIs
OPTION_ERR_CALLS = {"ignore::gitignore::GitignoreBuilder::add"}

# Iterator methods that consume or skip items without handing them to user code
_I = "core::iter::traits::iterator::Iterator::"
SWALLOWING_ADAPTORS = {_I + "flatten", _I + "count", _I + "last", _I + "nth", _I + "skip", _I + "step_by",
                       _I + "skip_while", _I + "take_while", _I + "flat_map|identity"}

SEND = "libxcp::feedback::StatusUpdater::send"
STATUS_UPDATE = "libxcp::feedback::StatusUpdate"


def in_scope_fn(fx, f):
    if f.is_closure:
        r = fx.fns.get(f.root)
        return r is None or not r.from_expansion
    return not f.from_expansion


def span_excluded(sp):
    # log!/format!/derive plumbing is filtered by macro identity, `?` and `for` desugarings are kept
    if sp.get("desugar"):
        return False
    return bool(sp.get("mac") or sp.get("astpass")) or is_log_span(sp)


ERR_PRESERVING = {
    "core::result::Result::<core::option::Option<T>, E>::transpose", "core::option::Option::<core::result::Result<T, E>>::transpose",
    "core::result::Result::<T, E>::map_err", "core::result::Result::<T, E>::map", "core::result::Result::<T, E>::and_then",
    "core::result::Result::<T, E>::inspect_err", "core::result::Result::<T, E>::inspect", "core::convert::Into::into",
    "core::convert::From::from",
}


def ret_locals(fn):
    """Locals whose value flows into _0: by plain moves, wrapped in Some(..), or -- as the error -- through the
    `?` desugaring (Try::branch -> Break payload -> from_residual), which is how an Err built in an inlined
    helper reaches the caller's return value."""
    du = defuse(fn)
    out = {0} | set(fn.raw.get("inlined_rets", []))
    work = list(out)

    def add(x):
        if x is not None and x not in out:
            out.add(x)
            work.append(x)

    while work:
        l = work.pop()
        for site, whole in du.defs.get(l, []):
            if site.is_term:
                n = site.node
                o = callee_orig(n)
                if o in (FROM_RESIDUAL, TRY_BRANCH) and n["args"]:
                    add(op_local(n["args"][0]))
                elif o in ERR_PRESERVING and n["args"]:
                    # `x.transpose()`, `x.map_err(f)` (not expanded: f is not a closure) ...: an Err stays an Err
                    add(op_local(n["args"][0]))
                continue
            rv = site.node["rv"]
            if rv["k"] == "use":
                p = op_place(rv["op"])
                if p is None:
                    continue
                pr = [e for e in p.get("p", []) if e != "deref"]
                if not pr:
                    add(p["l"])
                elif len(pr) == 2 and isinstance(pr[0], dict) and pr[0].get("dc") in ("Break", "Err"):
                    add(p["l"])
            elif rv["k"] == "agg" and rv.get("adt") in ("core::option::Option",):
                # Some(x) returned from a fn whose return type is Option<Result<..>>
                for o in rv["fields"]:
                    add(op_local(o))
    return out


PROCESS_EXIT = ("std::process::exit",)


def _nonzero_const(o):
    c = o.get("c") if isinstance(o, dict) else None
    return c is not None and isinstance(c.get("v"), int) and c["v"] != 0


def _never_zero(fn, operand, depth=0):
    """The value is the discriminant of a workspace enum none of whose variants is numbered 0
    (`enum Failure { Usage = 2, Source = 3, .. }` ... `ExitCode::from(failure as u8)`)."""
    l = op_local(operand)
    fx = getattr(fn, "fx", None)
    if l is None or fx is None or depth > 6:
        return False
    from cfg import whole_defs
    ds = whole_defs(fn, l)
    if not ds or any(d.is_term for d in ds):
        return False
    for d in ds:
        rv = d.node["rv"]
        if rv["k"] in ("use", "cast"):
            if not _never_zero(fn, rv["op"], depth + 1):
                return False
        elif rv["k"] == "discr":
            a = fx.adts.get(rv.get("adt") or "")
            if not a or a.get("kind") != "enum" or (rv.get("adt") or "").split("::")[0] not in ("xcp", "libxcp", "libfs"):
                return False
            try:
                if any(int(v.get("discr", "0")) == 0 for v in a.get("variants", [])):
                    return False
            except ValueError:
                return False
        else:
            return False
    return True


def _failure_conversion(fn, t, _memo={}):
    """`failure.into()` through a workspace `impl From<Failure> for ExitCode` every return of which is a non-zero
    status."""
    fx = getattr(fn, "fx", None)
    aty = (t.get("arg_tys") or [""])[0]
    if fx is None or aty.split("::")[0] not in ("xcp", "libxcp"):
        return False
    k = (id(fx), aty)
    if k not in _memo:
        _memo[k] = False
        g = fx.fns.get("<std::process::ExitCode as core::convert::From<%s>>::from" % aty)
        if g is None:
            want = "core::convert::From<%s> for std::process::ExitCode>::from" % aty
            cands = [x for x in fx.fns if x.endswith(want)]
            g = fx.fns[cands[0]] if len(cands) == 1 else None
        if g is not None:
            try:
                import views
                v = views.view(fx, g.path, depth=4, threaded=False) or g
            except Exception:
                v = g
            if getattr(v, "fx", None) is None:
                try:
                    v.fx = fx
                except Exception:
                    pass
            sg = signal_blocks(v)
            cf = cfg_of(v)
            r = cf.reach([0], blocked=set(sg))
            _memo[k] = bool(sg) and not any(b in r for b in cf.returns)
    return _memo[k]


def signal_blocks(fn, matched_locals=()):
    """Blocks that carry a failure signal."""
    cfg = cfg_of(fn)
    rl = ret_locals(fn)
    prov = None
    sig = {}
    # the error payload of the matched Result(s), followed through conversions: handing it back inside a value
    # of the function's own result type (`RangeCopy::Failed(e.into())`) is handing the failure to the caller
    du = defuse(fn)
    etaint = set()
    work = []
    # a test through a reference (`r.is_err()` borrows r) is a test of the referent
    matched_locals = set(matched_locals)
    grow = list(matched_locals)
    while grow:
        m_ = grow.pop()
        for site, whole in du.defs.get(m_, []):
            if not site.is_term and site.node["rv"]["k"] == "ref" and not site.node["rv"]["pl"].get("p"):
                x_ = site.node["rv"]["pl"]["l"]
                if x_ not in matched_locals:
                    matched_locals.add(x_)
                    grow.append(x_)
            elif not site.is_term and site.node["rv"]["k"] == "use" and op_place(site.node["rv"]["op"]) is not None \
                    and not op_place(site.node["rv"]["op"]).get("p") and "&" in str(fn.locals[m_]["ty"])[:1]:
                x_ = op_local(site.node["rv"]["op"])
                if x_ not in matched_locals:
                    matched_locals.add(x_)
                    grow.append(x_)
    for m_ in matched_locals:
        for site, how in du.uses.get(m_, []):
            if not site.is_term and how == "rv" and site.node["rv"]["k"] == "use":
                pl_ = op_place(site.node["rv"]["op"])
                pr_ = pl_.get("p") or []
                if len(pr_) == 2 and isinstance(pr_[0], dict) and pr_[0].get("dc") == "Err" and not site.node["lhs"].get("p"):
                    work.append(site.node["lhs"]["l"])
    while work:
        x = work.pop()
        if x in etaint:
            continue
        etaint.add(x)
        for site, how in du.uses.get(x, []):
            n_ = site.node
            if site.is_term:
                if n_["k"] == "call" and callee_orig(n_) in ("core::convert::Into::into", "core::convert::From::from") \
                        and not n_["dest"].get("p"):
                    work.append(n_["dest"]["l"])
            elif how == "rv" and n_["rv"]["k"] in ("use", "cast") and not n_["lhs"].get("p") and \
                    not (op_place(n_["rv"]["op"]) or {}).get("p"):
                work.append(n_["lhs"]["l"])
    for bi, b in enumerate(fn.blocks):
        if cfg.cleanup[bi]:
            continue
        for s in b["stmts"]:
            rv = s["rv"]
            lhs = s["lhs"]
            if lhs["l"] in rl and not lhs.get("p"):
                if rv["k"] == "agg" and rv.get("adt") == "core::result::Result" and rv.get("variant") == "Err":
                    sig[bi] = "return Err(..)"
                elif rv["k"] == "agg" and rv.get("ak") == "adt" and etaint and \
                        rv.get("adt") not in ("core::result::Result", "core::option::Option") and \
                        any(op_local(o_) in etaint for o_ in rv["fields"]):
                    sig[bi] = "returns the error inside %s::%s" % (rv["adt"].split("::")[-1], rv.get("variant"))
                elif rv["k"] == "use" and op_local(rv["op"]) in matched_locals:
                    sig[bi] = "returns the failed Result itself"
                elif rv["k"] == "use" and "c" in rv["op"] and (rv["op"]["c"].get("unevaluated") or "").endswith("ExitCode::FAILURE"):
                    sig[bi] = "returns ExitCode::FAILURE"
        t = b["term"]
        if t["k"] == "call":
            o = callee_orig(t)
            if o == FROM_RESIDUAL and t["dest"]["l"] in rl:
                sig[bi] = "`?` propagates"
            elif o in PROCESS_EXIT and t["args"] and _nonzero_const(t["args"][0]):
                sig[bi] = "process::exit(non-zero)"
            elif o in ("core::convert::From::from", "core::convert::Into::into") and t["dest"]["l"] in rl and \
                    "ExitCode" in (t.get("dest_ty") or "") and t["args"] and \
                    (_nonzero_const(t["args"][0]) or _never_zero(fn, t["args"][0]) or _failure_conversion(fn, t)):
                sig[bi] = "returns a non-zero ExitCode"
            elif o == SEND and len(t["args"]) >= 2:
                if prov is None:
                    prov = Prov(fn)
                l = op_local(t["args"][1])
                if l is not None:
                    atoms, _f, seen = prov.origins(l)
                    # the update value is (built from) a StatusUpdate::Error aggregate
                    for a in atoms:
                        pass
                    if _is_error_update(fn, l):
                        sig[bi] = "sends StatusUpdate::Error"
    return sig


def _is_error_update(fn, local):
    du = defuse(fn)
    seen, work = set(), [local]
    while work:
        l = work.pop()
        if l in seen:
            continue
        seen.add(l)
        for site, whole in du.defs.get(l, []):
            if site.is_term:
                continue
            rv = site.node["rv"]
            if rv["k"] == "agg" and rv.get("adt") == STATUS_UPDATE:
                if rv.get("variant") == "Error":
                    return True
            elif rv["k"] == "use":
                s = op_local(rv["op"])
                if s is not None:
                    work.append(s)
    return False


# ---------------------------------------------------------------------------
# Which errors of which primitive may be absorbed (everything else must fail).  This replaces site-keyed
# allow entries for the errno/ErrorKind idioms: it is keyed by the *primitive*, so the idiom may live in any
# function (a helper, a closure, a differently named wrapper) without a report, while absorbing any *other*
# error of the same call is still reported.
ERRNO = {"NXIO": 6, "NOSYS": 38, "PERM": 1, "XDEV": 18, "OPNOTSUPP": 95, "EOPNOTSUPP": 95, "INVAL": 22, "TXTBSY": 26,
         "NOTSUP": 95, "NOTTY": 25, "INTR": 4, "AGAIN": 11}
TOLERATED = {
    "std::io::Read::read": ({"Interrupted"}, "EINTR: the read is retried"),
    "rustix::fs::fd::seek": ({6}, "ENXIO from SEEK_DATA/SEEK_HOLE: no more data"),
    # "the facility is not available here" codes (C05 lets xcp fall back on exactly these; the tree uses a subset)
    "rustix::fs::copy_file_range::copy_file_range": ({38, 1, 18, 95}, "ENOSYS/EPERM/EXDEV/EOPNOTSUPP: kernel copy unavailable, user-space fallback"),
    "libc::unix::linux_like::linux::ioctl#FIEMAP": ({95, 25, 38}, "EOPNOTSUPP/ENOTTY/ENOSYS: no extent maps, whole-file copy"),
    "libc::unix::linux_like::linux::ioctl#FICLONE": ({95, 22, 18, 26, 25, 38}, "clone unsupported for this pair (EOPNOTSUPP/EINVAL/EXDEV/ETXTBSY/ENOTTY/ENOSYS)"),
    "std::path::Path::metadata": ({"NotFound"}, "ENOENT answers an existence question"),
    "std::path::Path::symlink_metadata": ({"NotFound"}, "ENOENT answers an existence question"),
    "std::fs::metadata": ({"NotFound"}, "ENOENT answers an existence question"),
    "std::fs::symlink_metadata": ({"NotFound"}, "ENOENT answers an existence question"),
}
# failures the property itself exempts, wherever the call is made
EXEMPT_CALLEES = {
    "libfs::common::copy_owner": "C04 exempts ownership: documented warning when chown is not permitted",
    "std::os::unix::fs::fchown": "C04 exempts ownership",
    "libfs::common::copy_xattr": "C04 exempts extended attributes: failure is a warning by design",
    "xattr::FileExt::set_xattr": "C04 exempts extended attributes",
    "simplelog::loggers::termlog::TermLogger::init": "logger set-up: falls back to the plain logger; no file-system effect",
    "std::thread::local::LocalKey::<T>::try_with": "AccessError (thread-local storage already destroyed) is not the failure of a "
                                                   "step that produces the destination; the caller falls back to a fresh value",
    "crossbeam_channel::channel::Receiver::<T>::recv": "RecvError says only that the queue is closed and drained: the normal end of the work, not a failed step",
    "std::sync::mpsc::Receiver::<T>::recv": "RecvError says only that the queue is closed and drained: the normal end of the work, not a failed step",
    "ignore::gitignore::GitignoreBuilder::add": "an absent .gitignore is the normal case and the API reports it the same way as "
                                                "partial parse errors, which git itself tolerates; reading .gitignore is not one of the steps C04 lists",
}
STD_STREAMS = ("std::io::Stdout", "std::io::StdoutLock", "std::io::Stderr", "std::io::StderrLock",
               "std::io::stdio::Stdout", "std::io::stdio::StdoutLock", "std::io::stdio::Stderr", "std::io::stdio::StderrLock")
_current = {"prim": None, "term": None, "fn": None}


def _prim_key(f, t):
    """Key into TOLERATED for the call terminator t (in function f): the unresolved item path, with the ioctl kind."""
    o = callee_orig(t) or callee_path(t)
    if o in STATUS_INT_CALLS:
        import p_role
        return o + ("#FICLONE" if p_role._is_ficlone(f, t) else "#FIEMAP")
    return o


def _tolerated():
    """What the error of the current obligation's callee may be absorbed as.  A primitive has its own line in
    TOLERATED.  A private workspace wrapper around primitives (`found(p.metadata())`, `ioctl_status(libc::ioctl(..))`,
    `ficlone(dst, src)`) may absorb what the primitives it wraps may absorb: those called in its (transitive) body
    and those whose results are its arguments."""
    prim = _current.get("prim")
    t = _current.get("term")
    f = _current.get("fn")
    if t is not None and f is not None:
        k = _prim_key(f, t)
        if k in TOLERATED:
            return TOLERATED[k]
    elif prim in TOLERATED:
        return TOLERATED[prim]
    fx = getattr(f, "fx", None) if f is not None else None
    if fx is None or t is None or prim not in fx.fns:
        return None
    g = fx.fns[prim]
    if g.raw.get("exported") or g.raw.get("reachable"):
        return None
    import q
    keys = set()
    # (a) primitives in the wrapper's body, transitively through private helpers, and in the closures handed to
    # the wrapper at this call site (`retry_intr(|| pread(..))` fails as pread fails)
    seen, work = set(), [prim] + [fv for fv in (t.get("fn") or {}).get("fnvals", []) if fv in fx.fns]
    while work:
        x = work.pop()
        if x in seen or x not in fx.fns:
            continue
        seen.add(x)
        gx = fx.fns[x]
        for bi2, t2 in gx.calls():
            k2 = _prim_key(gx, t2)
            if k2 in TOLERATED:
                keys.add(k2)
            p2 = callee_path(t2)
            if p2 in fx.fns and not (fx.fns[p2].raw.get("exported") or fx.fns[p2].raw.get("reachable")):
                work.append(p2)
            for fv in (t2.get("fn") or {}).get("fnvals", []):
                work.append(fv)
    # (b) primitives whose results are handed to the wrapper
    for ai in range(len(t["args"])):
        calls, atoms, _ff = q.arg_origin_calls(f, t, ai)
        for a_ in atoms:
            if a_.kind == "call" and a_.site is not None and a_.site.is_term:
                k2 = _prim_key(f, a_.site.node)
                if k2 in TOLERATED:
                    keys.add(k2)
    if not keys:
        return None
    tol = set()
    for k2 in keys:
        tol |= set(TOLERATED[k2][0])
    return tol, "wraps %s" % ", ".join(sorted(x.split("::")[-1] for x in keys))


def _ident_matches(ident, tol):
    if isinstance(ident, (set, frozenset)):
        # the edge is taken when the error is any member: it is a tolerated edge only if every member is tolerated
        # (wrapper variants picked up on the way to the constant -- the `Err` around the error -- are not identities)
        ident = set(i for i in ident if i not in ("Err", "Ok", "Some", "None"))
        return bool(ident) and all(_ident_matches(i, tol) for i in ident)
    if ident in tol:
        return True
    if isinstance(ident, int):
        return (65536 - ident) in tol      # rustix keeps -errno in a u16
    if isinstance(ident, str):
        return ERRNO.get(ident, ERRNO.get(ident[1:] if ident.startswith("E") else ident)) in tol
    return False


def error_test_edges(fn, region):
    """Edges inside `region` taken exactly when the error equals a constant: [(u, v, identity)].
    identity is an int (errno / raw code) or a name (ErrorKind variant, Errno constant)."""
    import p_kinds
    du = defuse(fn)
    proms = fn.raw.get("promoted", [])
    out = []
    for u in sorted(region):
        t = fn.blocks[u]["term"]
        if t["k"] != "switch":
            continue
        ty = t.get("op_ty")
        if ty == "bool":
            l = op_local(t["op"])
            idents, flip = set(), 0
            work, seen = [l], set()
            while work:
                x = work.pop()
                if x is None or x in seen:
                    continue
                seen.add(x)
                for site, whole in du.defs.get(x, []):
                    n = site.node
                    if site.is_term:
                        o = callee_orig(n)
                        if o in ("core::cmp::PartialEq::eq", "core::cmp::PartialEq::ne"):
                            flip ^= 1 if o.endswith("::ne") else 0
                            for a in n["args"]:
                                idents |= _const_idents(fn, a, proms)
                        elif o in ("core::slice::<impl [T]>::contains", "core::iter::traits::iterator::Iterator::any"):
                            idents |= _const_idents(fn, n["args"][0], proms)
                    elif n["rv"]["k"] == "use":
                        work.append(op_local(n["rv"]["op"]))
                    elif n["rv"]["k"] == "un" and n["rv"]["op"] == "Not":
                        flip ^= 1
                        work.append(op_local(n["rv"]["a"]))
                    elif n["rv"]["k"] == "bin" and n["rv"]["op"] in ("Eq", "Ne"):
                        flip ^= 1 if n["rv"]["op"] == "Ne" else 0
                        for o_ in (n["rv"]["a"], n["rv"]["b"]):
                            idents |= _const_idents(fn, o_, proms)
            if not idents:
                continue
            explicit = {int(v): tb for v, tb in t["targets"]}
            true_t = t["otherwise"] if 0 in explicit else explicit.get(1)
            false_t = explicit.get(0, t["otherwise"])
            if flip:
                true_t, false_t = false_t, true_t
            out.append((u, true_t, frozenset(idents)))
        elif ty == "isize":
            # `match e.kind() { ErrorKind::NotFound => .., _ => .. }`: a discriminant switch on an ErrorKind value
            l = op_local(t["op"])
            for s_ in fn.blocks[u]["stmts"]:
                rv_ = s_["rv"]
                if rv_["k"] == "discr" and s_["lhs"]["l"] == l and (rv_.get("adt") or "").endswith("::ErrorKind") \
                        and rv_.get("variants"):
                    names = {int(v_["val"]): v_["name"] for v_ in rv_["variants"]}
                    bytarget = {}
                    for val, tb in t["targets"]:
                        if tb != t["otherwise"] and int(val) in names:
                            bytarget.setdefault(tb, set()).add(names[int(val)])
                    for tb, vals in bytarget.items():
                        out.append((u, tb, frozenset(vals)))
        elif ty not in ("isize", None) and not ty.startswith("core::") :
            bytarget = {}
            for val, tb in t["targets"]:
                if tb != t["otherwise"]:
                    bytarget.setdefault(tb, set()).add(int(val))
            for tb, vals in bytarget.items():
                out.append((u, tb, frozenset(vals)))
    return out


def _const_idents(fn, operand, proms, depth=0):
    """Constants an operand denotes (through refs, moves and promoteds): ints, enum variant names, names of
    associated constants (`Errno::NXIO`)."""
    du = defuse(fn)
    res = set()

    def from_const(c):
        if "v" in c and not c.get("ty", "").startswith("bool"):
            try:
                res.add(int(c["v"]))
                return          # the value is known: the constant's name adds nothing
            except (TypeError, ValueError):
                pass
        if "elems" in c:
            for e_ in c["elems"]:
                res.add(int(e_))
            return
        if "unevaluated" in c:
            res.add(c["unevaluated"].split("::")[-1])
        if "promoted" in c and c["promoted"] < len(proms):
            for s in proms[c["promoted"]]:
                rv = s["rv"]
                if rv["k"] == "agg" and rv.get("ak") == "adt":
                    if rv["variant"] not in ("Some", "Ok"):
                        res.add(rv["variant"])
                    for f_ in rv["fields"]:
                        if "c" in f_:
                            from_const(f_["c"])
                elif rv["k"] == "agg" and rv.get("ak") in ("array", "tuple"):
                    for f_ in rv["fields"]:
                        if "c" in f_:
                            from_const(f_["c"])
                elif rv["k"] == "use" and "c" in rv["op"]:
                    from_const(rv["op"]["c"])

    c = operand.get("c")
    if c is not None:
        from_const(c)
    work = [op_local(operand)]
    seen = set()
    while work:
        x = work.pop()
        if x is None or x in seen or len(seen) > 12:
            continue
        seen.add(x)
        for site, whole in du.defs.get(x, []):
            if site.is_term:
                continue
            rv = site.node["rv"]
            if rv["k"] in ("use", "cast"):
                if "c" in rv["op"]:
                    from_const(rv["op"]["c"])
                else:
                    pl_ = op_place(rv["op"])
                    src_ = None
                    if pl_ is not None and any(isinstance(e_, dict) and "f" in e_ for e_ in pl_.get("p", [])):
                        import q as _q
                        src_ = _q.agg_field_source(fn, pl_)     # a captured variable / a struct or tuple field
                    if src_ is not None:
                        if "c" in src_:
                            from_const(src_["c"])
                        else:
                            work.append(op_local(src_))
                    else:
                        work.append(op_local(rv["op"]))
            elif rv["k"] == "ref":
                work.append(rv["pl"]["l"])
            elif rv["k"] == "agg" and rv.get("ak") == "adt":
                if rv["variant"] not in ("Some", "Ok"):
                    res.add(rv["variant"])
                for f_ in rv["fields"]:
                    if "c" in f_:
                        from_const(f_["c"])
                    else:
                        work.append(op_local(f_))
    return res


class Classified:
    def __init__(self, cls, detail="", witness=None, ok=None):
        self.cls, self.detail, self.witness = cls, detail, witness
        self.ok = ok


GOOD = ("PROPAGATED", "RETURNED", "UNWRAPPED", "MATCHED")


def err_edge_of_switch(t, err_val):
    """Target block taken when the switched value equals err_val (Result: Err=1)."""
    explicit = {int(v): b for v, b in t["targets"]}
    if err_val in explicit:
        return explicit[err_val]
    return t["otherwise"]


def _conditional_retry(fn, err_target, region, matched_locals):
    """Some switch inside the Err arm depends on the error value (directly, through its kind/errno, or through a
    predicate that is given the error)."""
    du = defuse(fn)
    taint, work = set(), []
    for m_ in matched_locals:
        work.append(m_)
    seen_m = set()
    while work:
        x = work.pop()
        if x in taint:
            continue
        taint.add(x)
        for site, how in du.uses.get(x, []):
            n_ = site.node
            if site.is_term:
                if n_["k"] == "call" and n_.get("dest") is not None and not n_["dest"].get("p"):
                    work.append(n_["dest"]["l"])
            elif how == "rv" and not n_["lhs"].get("p"):
                work.append(n_["lhs"]["l"])
            elif how == "rv":
                work.append(n_["lhs"]["l"])
    # re-issuing the *same* call: the way back must not advance an iterator / take the next item from a queue
    # (`for entry in walk { match entry { Err(e) if .. => continue` skips the entry, it does not retry it)
    for bi in region:
        t = fn.blocks[bi]["term"]
        if t["k"] == "call":
            o = callee_orig(t) or ""
            if o.endswith(("Iterator::next", "DoubleEndedIterator::next_back", "::recv", "::try_recv", "Iterator::nth")):
                return False
    for bi in region:
        t = fn.blocks[bi]["term"]
        if t["k"] == "switch" and op_local(t["op"]) in taint:
            return True
    return False


def check_err_arm(fn, switch_bb, err_target, matched_locals):
    """Every path from err_target to a return (or back to the switch) must pass a signal block."""
    cfg = cfg_of(fn)
    sig = signal_blocks(fn, matched_locals)
    if err_target in sig:
        return True, sig[err_target], None
    r = cfg.reach([err_target], blocked=set(sig.keys()))
    bad_ret = [b for b in cfg.returns if b in r]
    loops_back = switch_bb in r
    if not bad_ret and not loops_back:
        used = sorted(set(sig[b] for b in sig if any(p in r for p in cfg.pred[b])))
        return True, ", ".join(used) or "diverges", None
    # the Err arm proper: blocks only reachable through the Err edge
    without = cfg.reach([0], blocked_edges=[(switch_bb, err_target)])
    arm = [b for b in cfg.reach([err_target]) if b not in without]
    some_signal = any(b in sig for b in arm)
    # semantic tolerance: assuming the error is none of the codes this primitive may absorb, must every path fail?
    tol = _tolerated()
    if tol is not None:
        edges = error_test_edges(fn, set(arm) | {err_target})
        blocked = [(u, v) for (u, v, ident) in edges if _ident_matches(ident, tol[0])]
        if blocked:
            r2 = cfg.reach([err_target], blocked=set(sig.keys()), blocked_edges=blocked)
            if not any(b in r2 for b in cfg.returns) and switch_bb not in r2:
                absorbed = sorted(set(str(x) for (u, v, i) in edges if _ident_matches(i, tol[0]) for x in i))
                return True, "absorbs only %s (%s); every other error fails" % (absorbed, tol[1]), None
    if not bad_ret and loops_back and _conditional_retry(fn, err_target, r, matched_locals):
        # the failed call is issued again, and only for some errors (`Err(e) if e.is_interrupted() => continue`):
        # nothing is lost -- the step either succeeds later or fails with another error
        return True, "the call is retried under a condition on the error", None
    wit = dict(err_arm_entry="bb%d" % err_target,
               reaches=("return bb%d" % bad_ret[0]) if bad_ret else ("loop back to bb%d" % switch_bb),
               shape="swallow-some" if some_signal else "swallow-all",
               signal_free_blocks=sorted(r)[:40])
    return False, "Err arm reaches %s with no Err return / Error update" % (
        "the normal return" if bad_ret else "the loop again (retry)"), wit


def classify(fx, fn, local, depth=0, via="", seen=None):
    """Classify what happens to the fallible value held in `local`. Returns list[Classified]."""
    du = defuse(fn)
    res = []
    # `seen` memoises per local: a threaded view holds several copies of a statement, and each copy leads here
    seen = seen if seen is not None else {}
    if local in seen:
        return seen[local]
    if depth > 12:
        return res
    seen[local] = res
    if local == 0:
        return [Classified("RETURNED", via, ok=True)]
    for site, how in du.uses.get(local, []):
        n = site.node
        if site.is_term:
            k = n["k"]
            if k == "drop" or k == "assert":
                continue
            if k == "switch":
                continue
            if k != "call":
                continue
            if not how.startswith("arg"):
                continue
            ai = int(how[3:])
            o = callee_orig(n) or callee_path(n) or "<indirect>"
            if o == TRY_BRANCH:
                res.append(Classified("PROPAGATED", via + "?", ok=True))
                # a second Result layer (JoinHandle::join()??) is a new obligation found by the caller
            elif o in COMBINATORS and ai == 0:
                sub = classify(fx, fn, n["dest"]["l"], depth + 1, via + "%s -> " % o.split("::")[-1], seen)
                if not sub:
                    sub = [Classified("DISCARDED", via + "%s result unused" % o.split("::")[-1], ok=False)]
                res.extend(sub)
            elif o in UNWRAPS:
                res.append(Classified("UNWRAPPED", via + o.split("::")[-1], ok=True))
            elif o in PREDICATES:
                res.extend(_classify_bool(fx, fn, n["dest"]["l"], PREDICATES[o], via + o.split("::")[-1], local))
            elif o in DISCARDERS:
                res.append(Classified("DISCARDED", via + "fed to `%s`" % o.split("::")[-1], ok=False))
            elif o == "core::result::Result::<T, E>::as_ref" or o == "core::result::Result::<T, E>::as_mut" \
                    or o == "core::ops::deref::Deref::deref" or o == "core::clone::Clone::clone":
                res.extend(classify(fx, fn, n["dest"]["l"], depth + 1, via, seen))
            elif (callee_path(n) in fx.fns and ai < fx.fns[callee_path(n)].argc
                  and RESULT_RE.match(fx.fns[callee_path(n)].locals[ai + 1]["ty"])):
                # handed to a workspace function whose fallible parameter is an obligation of its own
                res.append(Classified("DELEGATED", via + "handled by %s (its parameter is checked there)"
                                      % callee_path(n), ok=True))
            else:
                res.append(Classified("PASSED", via + "passed to %s (arg %d)" % (o, ai), ok=False))
            continue
        if how != "rv":
            continue
        rv = n["rv"]
        k = rv["k"]
        lhs = n["lhs"]
        if k == "use":
            p = op_place(rv["op"])
            if p is not None and p["l"] == local:
                if p.get("p"):
                    # Option<Result<..>>: the Some payload *is* the fallible value (iterator items)
                    pr = p["p"]
                    if len(pr) == 2 and isinstance(pr[0], dict) and pr[0].get("dc") == "Some" \
                            and OPT_RESULT_RE.match(fn.locals[local]["ty"]) and not lhs.get("p"):
                        res.extend(classify(fx, fn, lhs["l"], depth + 1, via + "Some(item) -> ", seen))
                    continue   # other payload / field reads happen inside a match arm
                if lhs.get("p"):
                    res.append(Classified("STORED", via + "stored into a place", ok=False))
                else:
                    res.extend(classify(fx, fn, lhs["l"], depth + 1, via, seen))
        elif k == "ref":
            if rv["pl"]["l"] == local and not rv["pl"].get("p"):
                res.extend(classify(fx, fn, lhs["l"], depth + 1, via, seen))
        elif k == "discr":
            pr = [e for e in rv["pl"].get("p", []) if e != "deref"]
            if OPT_RESULT_RE.match(fn.locals[local]["ty"]):
                # `match opt_res { Some(Ok(..)) .., Some(Err(e)) .., None .. }`: the Result layer is the
                # discriminant of the Some payload; the Option layer itself is not a failure test
                if not (len(pr) == 2 and isinstance(pr[0], dict) and pr[0].get("dc") == "Some"):
                    continue
            elif pr:
                continue
            dl = lhs["l"]
            for s2, how2 in du.uses.get(dl, []):
                if how2 == "switch" and s2.is_term:
                    # drop-elaboration re-reads the discriminant; those switches only guard drops
                    if _is_drop_elab_switch(fn, s2):
                        continue
                    tgt = err_edge_of_switch(s2.node, 1)
                    ok, why, wit = check_err_arm(fn, s2.bb, tgt, {local})
                    res.append(Classified("MATCHED" if ok else "HANDLED-LOCALLY", via + why, wit, ok=ok))
            # the same match on a path where the variant is already known (an inlined helper returned it)
            for (b2, val, tgt) in _threaded_switches(fn).get(dl, []):
                if val == 1:
                    ok, why, wit = check_err_arm(fn, b2, tgt, {local})
                    res.append(Classified("MATCHED" if ok else "HANDLED-LOCALLY", via + why, wit, ok=ok))
                else:
                    res.append(Classified("MATCHED", via + "success on this path", ok=True))
        elif k == "agg":
            res.extend(classify(fx, fn, lhs["l"], depth + 1, via + "wrapped -> ", seen))
        elif k == "cast":
            res.extend(classify(fx, fn, lhs["l"], depth + 1, via, seen))
    return res


def _threaded_switches(fn, _memo={}):
    """Switches that variant threading resolved on a path: {switched local: [(block, value, target)]}."""
    k = id(fn)
    if k not in _memo or _memo[k][0] is not fn:
        d = {}
        for bi, b in enumerate(fn.blocks):
            t = b["term"]
            ts = t.get("threaded_switch") if t["k"] == "goto" else None
            if isinstance(ts, dict) and not ts.get("drop_elab"):
                d.setdefault(ts["local"], []).append((bi, ts["val"], t["target"]))
        _memo[k] = (fn, d)
    return _memo[k][1]


def _is_drop_elab_switch(fn, site):
    """A switch whose every target leads straight to Drop/goto-only blocks (no user statements):
    produced by drop elaboration for a partially moved enum, not by a `match`."""
    t = site.node
    sp = t["span"]
    # user matches carry the span of the scrutinee/match; elaboration switches carry the span of the
    # closing brace of the scope.  We do not look at text: we look at what the targets do.
    cfg = cfg_of(fn)
    for tb in set([b for _, b in t["targets"]] + [t["otherwise"]]):
        b = fn.blocks[tb]
        if b["stmts"]:
            # drop flags being cleared are the only statements elaboration emits
            for s in b["stmts"]:
                rv = s["rv"]
                if not (rv["k"] == "use" and "c" in rv["op"] and rv["op"]["c"]["ty"] == "bool"):
                    return False
        if b["term"]["k"] not in ("drop", "goto", "return", "resume", "unreachable"):
            return False
    return True


def _signalled_before(fn, bool_switch_bb, matched_local):
    """`let failed = r.is_err(); match r { Err(e) => report(e), .. }; if failed { break }`: the value is also matched
    by discriminant at a switch that dominates the boolean test, and every path from that match's Err arm to the
    boolean test passes a failure signal."""
    cfg = cfg_of(fn)
    du = defuse(fn)
    ms = {matched_local}
    grow = [matched_local]
    while grow:
        m_ = grow.pop()
        for site, whole in du.defs.get(m_, []):
            if not site.is_term and site.node["rv"]["k"] == "ref" and not site.node["rv"]["pl"].get("p"):
                x_ = site.node["rv"]["pl"]["l"]
                if x_ not in ms:
                    ms.add(x_)
                    grow.append(x_)
    sig = signal_blocks(fn, ms)
    for m_ in ms:
        for site, how in du.uses.get(m_, []):
            if site.is_term or site.node["rv"]["k"] != "discr" or site.node["rv"]["pl"].get("p"):
                continue
            d = site.node["lhs"]["l"]
            for s2, h2 in du.uses.get(d, []):
                if not (s2.is_term and h2 == "switch"):
                    continue
                if not cfg.set_dominates([s2.bb], bool_switch_bb):
                    continue
                et = err_edge_of_switch(s2.node, 1)
                if et in sig:
                    return True
                r = cfg.reach([et], blocked=set(sig))
                if bool_switch_bb not in r and not any(b in r for b in cfg.returns):
                    return True
    return False


def _classify_bool(fx, fn, bl, fail_val, via, matched_local):
    """The fallible value was reduced to a bool (is_err/is_ok, `!= 0`): find the switch on it."""
    du = defuse(fn)
    out = []
    work, seen = [(bl, fail_val)], set()
    while work:
        l, fv = work.pop()
        if (l, fv) in seen:
            continue
        seen.add((l, fv))
        for site, how in du.uses.get(l, []):
            n = site.node
            if site.is_term and how == "switch":
                tgt = err_edge_of_switch(n, fv)
                ok, why, wit = check_err_arm(fn, site.bb, tgt, {matched_local})
                if not ok and _signalled_before(fn, site.bb, matched_local):
                    ok, why, wit = True, "the failure was already signalled in the Err arm of an earlier match on the same value", None
                out.append(Classified("MATCHED" if ok else "HANDLED-LOCALLY", via + ": " + why, wit, ok=ok))
            elif not site.is_term and how == "rv":
                rv = n["rv"]
                if rv["k"] == "use" and not n["lhs"].get("p"):
                    if n["lhs"]["l"] == 0:
                        out.append(Classified("RETURNED", via + ": the boolean is returned to the caller", ok=True))
                    work.append((n["lhs"]["l"], fv))
                elif rv["k"] == "un" and rv["op"] == "Not":
                    work.append((n["lhs"]["l"], 1 - fv))
                elif rv["k"] == "bin" and rv["op"] in ("Ne", "Eq"):
                    other = rv["b"] if op_local(rv["a"]) == l else rv["a"]
                    c = other.get("c")
                    if c is not None and c.get("v") == 0:
                        # x != 0 : failing (non-zero) makes the comparison true; x == 0: false
                        work.append((n["lhs"]["l"], 1 if rv["op"] == "Ne" else 0))
                    else:
                        out.append(Classified("COMPARED", via + ": compared with a non-constant", ok=False))
    for (l, fv) in list(seen):
        for (b2, val, tgt) in _threaded_switches(fn).get(l, []):
            if val == fv:
                ok, why, wit = check_err_arm(fn, b2, tgt, {matched_local})
                out.append(Classified("MATCHED" if ok else "HANDLED-LOCALLY", via + ": " + why, wit, ok=ok))
            else:
                out.append(Classified("MATCHED", via + ": success on this path", ok=True))
    if not out:
        out.append(Classified("DISCARDED", via + ": boolean never tested", ok=False))
    return out


def fallible_sites(fx, crates=None):
    """Yield (fn, block index, terminator, kind) for every in-scope fallible call site, in program order."""
    for path in sorted(fx.fns):
        f = fx.fns[path]
        if crates and f.crate not in crates:
            continue
        if not in_scope_fn(fx, f):
            continue
        for bi, t in f.calls():
            sp = t["span"]
            if span_excluded(sp):
                continue
            o = callee_orig(t) or callee_path(t) or ""
            dty = t.get("dest_ty", "")
            if o in STATUS_INT_CALLS and not RESULT_RE.match(dty):
                yield f, bi, t, "status_int"
            elif o in OPTION_ERR_CALLS:
                yield f, bi, t, "option_err"
            elif RESULT_RE.match(dty):
                if dty.endswith("core::fmt::Error>"):
                    continue
                # errors of pure computations (a number that does not fit, a clock that went backwards, thread-local
                # storage already torn down) are not failures of a step that produces the destination; what the
                # caller substitutes is ordinary data flow.  (Parsing is kept: it validates user input.)
                if dty.rstrip(">").endswith(PURE_ERRORS):
                    continue
                # the plumbing of `?` and of combinators is not itself a fallible step
                if o in (TRY_BRANCH, FROM_RESIDUAL):
                    continue
                yield f, bi, t, "result"


def run(fx, crates=None, cfgname="A"):
    """All R-ERR obligations for the given crates. Returns list[Ob]."""
    obs = []
    sites = list(fallible_sites(fx, crates))
    counters = {}
    always_reports = _always_reporting_fns(fx)
    for f, bi, t, kind in sites:
        o = callee_orig(t) or callee_path(t) or "<indirect>"
        fo = f
        import expand
        if expand.expanded(fx, fo).blocks[bi]["term"].get("expanded"):
            # an expanded combinator is plumbing: what happens to the error it forwards is followed from the call
            # that produced the error (its receiver), through the expansion
            continue
        f = _view(fx, f)           # same local indices, workspace helpers and closures inlined, variants threaded
        _current.update(prim=o, term=t, fn=fo)
        ordk = (f.path, o)
        ordinal = counters.get(ordk, 0)
        counters[ordk] = ordinal + 1
        key = mkkey("R-ERR", f.path, o, ordinal)
        loc = "%s:%d" % (t["span"]["file"], t["span"]["line"])
        dl = t["dest"]["l"]
        if t["dest"].get("p"):
            obs.append(Ob("R-ERR", key, False, loc, f.path, "fallible result written into a place projection",
                          cfg=cfgname))
            continue
        if kind == "status_int":
            cl = _classify_bool_from_int(fx, f, dl)
        elif kind == "option_err":
            cl = classify(fx, f, dl)
            if not cl:
                cl = [Classified("DISCARDED", "Option<Error> never inspected", ok=False)]
        else:
            if o in COMBINATORS or o in UNWRAPS:
                # combinator results are reached through their receiver's obligation; but a combinator
                # whose receiver is not itself a call result (e.g. a parameter) still needs checking
                pass
            cl = classify(fx, f, dl)
            if not cl:
                cl = [Classified("DISCARDED", "result never inspected", ok=False)]
        good = [c for c in cl if c.ok]
        bad = [c for c in cl if not c.ok]
        # an instance is satisfied when every consuming use is acceptable
        ok = bool(good) and not bad
        if not ok:
            why = None
            if o in EXEMPT_CALLEES or callee_path(t) in EXEMPT_CALLEES:
                why = EXEMPT_CALLEES.get(o) or EXEMPT_CALLEES.get(callee_path(t))
            elif o.startswith("std::io::Write::") and (t.get("arg_tys") or [""])[0].lstrip("&mut ").startswith(STD_STREAMS):
                why = "output to the process's standard streams is not a step that produces the destination"
            elif o == SEND and len(t["args"]) > 1 and op_local(t["args"][1]) is not None and \
                    _is_error_update(fo, op_local(t["args"][1])):
                why = "this is the delivery of an error report itself: it can only fail when the receiver is gone"
            elif callee_path(t) in always_reports or o in always_reports:
                why = "this call delivers an error report: it can only fail when the receiver is gone"
            elif o == SEND:
                why = "a status update is a report, not a step that produces the destination: its delivery can only " \
                      "fail when the receiver is gone (that a *failure* is reported is required separately)"
            if why and all(c.cls in ("HANDLED-LOCALLY", "DISCARDED") for c in bad):
                cl = good + [Classified("EXEMPT", why, ok=True)]
                good, bad, ok = cl, [], True
        what = "%s: %s" % ("/".join(sorted(set(c.cls for c in cl))), "; ".join(c.detail for c in cl if c.detail)[:300])
        wit = None
        if not ok:
            wit = dict(callee=o, classes=[dict(cls=c.cls, detail=c.detail, witness=c.witness) for c in cl])
        ob = Ob("R-ERR", key, ok, loc, f.path, "%s -> %s" % (o, what), wit, cfg=cfgname)
        ob.shape = _shape(cl)
        obs.append(ob)
    # fallible values received as parameters (closure |der| over an iterator of Results)
    for path in sorted(fx.fns):
        f = fx.fns[path]
        if crates and f.crate not in crates:
            continue
        if not in_scope_fn(fx, f):
            continue
        # a private helper is analysed inline in each of its callers' views (its fallible parameter is the
        # caller's call result); closures and externally visible functions are analysed on their own
        if not f.is_closure and not (f.raw.get("exported") or f.raw.get("reachable")) and cg_callers(fx, f.path):
            continue
        if f.is_closure and f.path in _expanded_closures(fx):
            # handed to a combinator that is expanded: the closure runs inline in its parent's view, where its
            # parameter *is* the caller's fallible value (judged at the call that produced it)
            continue
        _current.update(prim=None, term=None, fn=f)
        f = _view(fx, f)
        for l in range(1, f.argc + 1):
            ty = f.locals[l]["ty"]
            # closures take their arguments as a tuple in the ABI but MIR spreads them as locals
            if RESULT_RE.match(ty) and not ty.endswith("core::fmt::Error>"):
                cl = classify(fx, f, l)
                if not cl:
                    cl = [Classified("DISCARDED", "fallible parameter never inspected", ok=False)]
                ok = all(c.ok for c in cl)
                key = mkkey("R-ERR", f.path, "param:" + ty.split("<")[0], l)
                what = "fallible parameter _%d (%s) -> %s: %s" % (
                    l, f.name_of_local.get(l, "?"), "/".join(sorted(set(c.cls for c in cl))),
                    "; ".join(c.detail for c in cl if c.detail)[:200])
                ob = Ob("R-ERR", key, ok, f.loc(), f.path, what,
                        None if ok else dict(classes=[dict(cls=c.cls, detail=c.detail, witness=c.witness)
                                                      for c in cl]), cfg=cfgname)
                ob.shape = _shape(cl)
                obs.append(ob)
    # iterator adaptors that drop or skip items unseen, over an iterator of Results
    counters2 = {}
    for path in sorted(fx.fns):
        f = fx.fns[path]
        if crates and f.crate not in crates:
            continue
        if not in_scope_fn(fx, f):
            continue
        for bi, t in f.calls():
            if span_excluded(t["span"]):
                continue
            o = callee_orig(t) or ""
            it = (t.get("fn") or {}).get("iter_item", "")
            if o in SWALLOWING_ADAPTORS and RESULT_RE.match(it) and not it.endswith("core::fmt::Error>"):
                n = counters2.get((f.path, o), 0)
                counters2[(f.path, o)] = n + 1
                ob = Ob("R-ERR", mkkey("R-ERR", f.path, o, n, "adaptor"), False,
                        "%s:%d" % (t["span"]["file"], t["span"]["line"]), f.path,
                        "%s over an iterator of %s -> DISCARDED: Err items are dropped without being looked at"
                        % (o.split("::")[-1], it.split("<")[0].split("::")[-1]), dict(callee=o, item=it), cfg=cfgname)
                ob.shape = "discarded"
                obs.append(ob)
    # second Result layers: Continue payload of a `?` that is itself a Result (JoinHandle::join()??)
    obs.extend(_nested_layers(fx, crates, cfgname))
    obs.extend(_collections_of_results(fx, crates, cfgname))
    return obs


def _expanded_closures(fx, _memo={}):
    k = id(fx)
    if k not in _memo or _memo[k][0] is not fx:
        import expand
        out = set()
        for p, g in fx.fns.items():
            if g.crate not in ("libxcp", "libfs", "xcp"):
                continue
            e = expand.expanded(fx, g)
            if e is g:
                continue
            for b in e.blocks[len(g.blocks):]:
                t = b["term"]
                if t["k"] == "call" and (t.get("fn") or {}).get("path") in fx.fns and fx.fns[t["fn"]["path"]].is_closure:
                    out.add(t["fn"]["path"])
        _memo[k] = (fx, out)
    return _memo[k][1]


def _view(fx, f):
    import views
    try:
        return views.view(fx, f.path, depth=4, threaded=True) or f
    except Exception:
        return f


def cg_callers(fx, path):
    import q
    return [c for c in q.callgraph(fx).callers.get(path, ()) if c != path]


def _always_reporting_fns(fx):
    """Workspace functions that send a StatusUpdate::Error on every path to their return."""
    out = set()
    for p, f0 in fx.fns.items():
        if f0.crate != "libxcp" or not in_scope_fn(fx, f0):
            continue
        # on the inlined view: `copy_error(e)` -> `self.error(..)` -> `self.send(StatusUpdate::Error(..))`
        try:
            import views
            f = views.view(fx, p, depth=3, threaded=False) or f0
        except Exception:
            f = f0
        cfg = cfg_of(f)
        sends = []
        for bi, t in f.calls():
            if callee_orig(t) == SEND and len(t["args"]) > 1 and op_local(t["args"][1]) is not None and \
                    _is_error_update(f, op_local(t["args"][1])):
                sends.append(bi)
        if sends and cfg.returns and cfg.passes_through(sends, 0, cfg.returns):
            out.add(p)
            continue
        # `report_only(&result)`: sends the report when there is something to report, else answers Ok: the only
        # failure it can return is that of the send
        if sends and RESULT_RE.match(f.locals[0]["ty"]):
            rl = ret_locals(f)
            only = True
            for bi, b in enumerate(f.blocks):
                if cfg.cleanup[bi]:
                    continue
                for s_ in b["stmts"]:
                    rv = s_["rv"]
                    if s_["lhs"]["l"] in rl and not s_["lhs"].get("p") and rv["k"] == "agg" and \
                            rv.get("adt") == "core::result::Result" and rv.get("variant") == "Err":
                        only = False
                t = b["term"]
                if t["k"] == "call" and not t["dest"].get("p") and t["dest"]["l"] in rl and bi not in sends:
                    o = callee_orig(t)
                    if o not in (TRY_BRANCH, FROM_RESIDUAL) and o not in ERR_PRESERVING:
                        only = False
            if only:
                out.add(p)
    return out


def _shape(cl):
    """Shape of a failing instance, matched by allow-list entries: which kind of swallowing it is."""
    shapes = set()
    for c in cl:
        if c.ok:
            continue
        if c.cls == "HANDLED-LOCALLY":
            shapes.add((c.witness or {}).get("shape", "swallow-all"))
        else:
            shapes.add(c.cls.lower())
    return "+".join(sorted(shapes))


def _classify_bool_from_int(fx, fn, dl):
    """C status return: must be compared with 0 and the non-zero branch must fail."""
    return _classify_bool(fx, fn, dl, 1, "status", dl) if False else _int_status(fx, fn, dl)


def _int_status(fx, fn, dl):
    du = defuse(fn)
    out = []
    work, seen = [dl], set()
    while work:
        l = work.pop()
        if l in seen:
            continue
        seen.add(l)
        for site, how in du.uses.get(l, []):
            n = site.node
            if site.is_term:
                if how == "switch":
                    # switch directly on the integer: 0 -> ok, otherwise -> failure
                    explicit = {int(v): b for v, b in n["targets"]}
                    tgt = n["otherwise"] if 0 in explicit else None
                    if tgt is None:
                        out.append(Classified("COMPARED", "status switched without a zero arm", ok=False))
                    else:
                        ok, why, wit = check_err_arm(fn, site.bb, tgt, {dl})
                        out.append(Classified("MATCHED" if ok else "HANDLED-LOCALLY", "status: " + why, wit, ok=ok))
                continue
            if how != "rv":
                continue
            rv = n["rv"]
            if rv["k"] in ("use", "cast") and not n["lhs"].get("p"):
                work.append(n["lhs"]["l"])
            elif rv["k"] == "bin" and rv["op"] in ("Ne", "Eq", "Lt", "Gt"):
                other = rv["b"] if op_local(rv["a"]) == l else rv["a"]
                c = other.get("c")
                if c is not None and c.get("v") == 0:
                    fv = 0 if rv["op"] == "Eq" else 1
                    out.extend(_classify_bool(fx, fn, n["lhs"]["l"], fv, "status %s 0" % rv["op"], dl))
                else:
                    out.append(Classified("COMPARED", "status compared with a non-zero constant", ok=False))
    if not out:
        out.append(Classified("DISCARDED", "C status return never tested", ok=False))
    return out


COLL_RESULT_RE = re.compile(r"^(alloc::vec::Vec|alloc::collections::[a-z_]+::[A-Za-z]+|alloc::boxed::Box<\[)<?(core::option::Option<)?core::result::Result<")


def _collections_of_results(fx, crates, cfgname):
    """A Vec (or other std collection) of Results that is produced and then dropped without any use: the errors in
    it are lost (`handles.map(|h| h.join()..).collect::<Result<Vec<_>, _>>()?;` keeps the outer layer only)."""
    obs = []
    for path in sorted(fx.fns):
        f = fx.fns[path]
        if crates and f.crate not in crates:
            continue
        if not in_scope_fn(fx, f):
            continue
        du = defuse(f)
        n = 0
        for l, lc in enumerate(f.locals):
            if l <= f.argc or not COLL_RESULT_RE.match(lc["ty"]):
                continue
            defs = [s_ for s_, whole in du.defs.get(l, []) if whole]
            if not defs:
                continue
            # follow plain moves; any other use (iteration, indexing, being returned or passed on) counts as looked at
            used = False
            work, seen = [l], set()
            while work and not used:
                x = work.pop()
                if x in seen:
                    continue
                seen.add(x)
                if x == 0:
                    used = True
                for site, how in du.uses.get(x, []):
                    nd = site.node
                    if site.is_term:
                        if nd["k"] == "drop":
                            continue
                        used = True
                    elif how == "rv" and nd["rv"]["k"] == "use" and not nd["lhs"].get("p") and \
                            not (op_place(nd["rv"]["op"]) or {}).get("p"):
                        work.append(nd["lhs"]["l"])
                    else:
                        used = True
            # only report at the origin of the value (a local that is itself a move target of another is skipped)
            is_origin = any(site.is_term or site.node["rv"]["k"] != "use" or (op_place(site.node["rv"]["op"]) or {}).get("p")
                            for site in defs)
            if not is_origin:
                continue
            site = defs[0]
            sp = site.node["span"]
            obs.append(Ob("R-ERR", mkkey("R-ERR", f.path, "collection-of-results", n), used, "%s:%d" % (sp["file"], sp["line"]),
                          f.path, "a %s is %s" % (lc["ty"].split("<")[0].split("::")[-1] + " of Results",
                                                   "consumed" if used else "DISCARDED: dropped without being looked at (the errors in it are lost)"),
                          None if used else dict(type=lc["ty"]), cfg=cfgname))
            n += 1
    return obs


def _nested_layers(fx, crates, cfgname):
    """`x??`: the Continue payload of the first `?` is itself a Result and must be consumed properly."""
    obs = []
    for path in sorted(fx.fns):
        f = fx.fns[path]
        if crates and f.crate not in crates:
            continue
        if not in_scope_fn(fx, f):
            continue
        n = 0
        for bi, b in enumerate(f.blocks):
            if b.get("cleanup"):
                continue
            for s in b["stmts"]:
                rv = s["rv"]
                if rv["k"] != "use":
                    continue
                p = op_place(rv["op"])
                if p is None or not p.get("p"):
                    continue
                pr = p["p"]
                if len(pr) == 2 and isinstance(pr[0], dict) and pr[0].get("dc") == "Continue":
                    lt = f.locals[s["lhs"]["l"]]["ty"]
                    if RESULT_RE.match(lt) and not s["lhs"].get("p"):
                        cl = classify(fx, f, s["lhs"]["l"])
                        if not cl:
                            cl = [Classified("DISCARDED", "inner Result never inspected", ok=False)]
                        ok = all(c.ok for c in cl)
                        key = mkkey("R-ERR", f.path, "inner-result-of-?", n)
                        n += 1
                        loc = "%s:%d" % (s["span"]["file"], s["span"]["line"])
                        obs.append(Ob("R-ERR", key, ok, loc, f.path,
                                      "inner Result layer -> %s" % "/".join(sorted(set(c.cls for c in cl))),
                                      None if ok else dict(classes=[dict(cls=c.cls, detail=c.detail) for c in cl]),
                                      cfg=cfgname))
    return obs
