"""R-ERR: error discipline.  Every fallible result in product code is
classified by forward def-use:

  PROPAGATED      flows into `?` (Try::branch)
  RETURNED        becomes the function's return value
  TRANSFORMED     receiver of a combinator; obligation moves to its result
  MATCHED         discriminant switched on; every path out of the Err arm that
                  reaches a return (or re-enters the loop) must carry a failure
                  signal: Err constructed into the return value, a
                  StatusUpdate::Error sent, or divergence
  UNWRAPPED       unwrap/expect: loud failure
  DISCARDED       anything else (unused, `.ok()`, `is_err()` unexamined, `let _r`)

HANDLED-LOCALLY (a MATCHED Err arm with a signal-free path) and DISCARDED are
violations unless the exact site key is in tables/allow.json.
"""
import re

from cfg import (cfg_of, defuse, op_local, op_place, callee_path, callee_orig, is_log_span, is_fmt_span,
                 place_fields, rv_operands, Prov)
from engine import Ob, mkkey

RESULT_RE = re.compile(r"^(core::option::Option<)?core::result::Result<")

OPT_RESULT_RE = re.compile(r"^core::option::Option<core::result::Result<")

TRY_BRANCH = "core::ops::try_trait::Try::branch"
FROM_RESIDUAL = "core::ops::try_trait::FromResidual::from_residual"

COMBINATORS = {
    "core::result::Result::<T, E>::map", "core::result::Result::<T, E>::map_err",
    "core::result::Result::<T, E>::and_then", "core::result::Result::<T, E>::or_else",
    "anyhow::Context::context", "anyhow::Context::with_context",
    "core::option::Option::<T>::unwrap_or_else",   # Option<Result<..>>: None => fallback closure returns the Result
    "core::option::Option::<T>::map",
    "core::convert::Into::into", "core::convert::From::from",
}
UNWRAPS = {
    "core::result::Result::<T, E>::unwrap", "core::result::Result::<T, E>::expect",
    "core::result::Result::<T, E>::unwrap_err", "core::result::Result::<T, E>::expect_err",
}
# predicates: result is a bool; which value means "it failed"
PREDICATES = {
    "core::result::Result::<T, E>::is_err": 1,
    "core::result::Result::<T, E>::is_ok": 0,
}
DISCARDERS = {
    "core::result::Result::<T, E>::ok", "core::result::Result::<T, E>::err",
    "core::result::Result::<T, E>::unwrap_or", "core::result::Result::<T, E>::unwrap_or_default",
    "core::result::Result::<T, E>::unwrap_or_else", "core::mem::drop",
    "core::result::Result::<T, E>::is_ok_and", "core::result::Result::<T, E>::is_err_and",
}
# C-style status returns: non-zero means failure
STATUS_INT_CALLS = {"libc::unix::linux_like::linux::ioctl"}
# Option<Error>-returning APIs
OPTION_ERR_CALLS = {"ignore::gitignore::GitignoreBuilder::add"}

# Iterator methods that consume or skip items without handing them to user code
_I = "core::iter::traits::iterator::Iterator::"
SWALLOWING_ADAPTORS = {_I + "flatten", _I + "count", _I + "last", _I + "nth", _I + "skip", _I + "step_by",
                       _I + "skip_while", _I + "take_while", _I + "flat_map|identity"}

SEND = "libxcp::feedback::StatusUpdater::send"
STATUS_UPDATE = "libxcp::feedback::StatusUpdate"


def in_scope_fn(fx, f):
    if f.is_closure:
        r = fx.fns.get(f.root)
        return r is None or not r.from_expansion
    return not f.from_expansion


def span_excluded(sp):
    # log!/format!/derive plumbing is filtered by macro identity, `?` and `for` desugarings are kept
    if sp.get("desugar"):
        return False
    return bool(sp.get("mac") or sp.get("astpass")) or is_log_span(sp)


def ret_locals(fn):
    """Locals whose value flows by plain moves into _0."""
    du = defuse(fn)
    out = {0}
    work = [0]
    while work:
        l = work.pop()
        for site, whole in du.defs.get(l, []):
            if site.is_term:
                continue
            rv = site.node["rv"]
            if rv["k"] == "use":
                s = op_local(rv["op"])
                p = op_place(rv["op"])
                if s is not None and not p.get("p") and s not in out:
                    out.add(s)
                    work.append(s)
            elif rv["k"] == "agg" and rv.get("adt") in ("core::option::Option",):
                # Some(x) returned from a fn whose return type is Option<Result<..>>
                for o in rv["fields"]:
                    s = op_local(o)
                    if s is not None and s not in out:
                        out.add(s)
                        work.append(s)
    return out


def signal_blocks(fn, matched_locals=()):
    """Blocks that carry a failure signal."""
    cfg = cfg_of(fn)
    rl = ret_locals(fn)
    prov = None
    sig = {}
    for bi, b in enumerate(fn.blocks):
        if cfg.cleanup[bi]:
            continue
        for s in b["stmts"]:
            rv = s["rv"]
            lhs = s["lhs"]
            if lhs["l"] in rl and not lhs.get("p"):
                if rv["k"] == "agg" and rv.get("adt") == "core::result::Result" and rv.get("variant") == "Err":
                    sig[bi] = "return Err(..)"
                elif rv["k"] == "use" and op_local(rv["op"]) in matched_locals:
                    sig[bi] = "returns the failed Result itself"
        t = b["term"]
        if t["k"] == "call":
            o = callee_orig(t)
            if o == FROM_RESIDUAL and t["dest"]["l"] in rl:
                sig[bi] = "`?` propagates"
            elif o == SEND and len(t["args"]) >= 2:
                if prov is None:
                    prov = Prov(fn)
                l = op_local(t["args"][1])
                if l is not None:
                    atoms, _f, seen = prov.origins(l)
                    # the update value is (built from) a StatusUpdate::Error aggregate
                    for a in atoms:
                        pass
                    if _is_error_update(fn, l):
                        sig[bi] = "sends StatusUpdate::Error"
    return sig


def _is_error_update(fn, local):
    du = defuse(fn)
    seen, work = set(), [local]
    while work:
        l = work.pop()
        if l in seen:
            continue
        seen.add(l)
        for site, whole in du.defs.get(l, []):
            if site.is_term:
                continue
            rv = site.node["rv"]
            if rv["k"] == "agg" and rv.get("adt") == STATUS_UPDATE:
                if rv.get("variant") == "Error":
                    return True
            elif rv["k"] == "use":
                s = op_local(rv["op"])
                if s is not None:
                    work.append(s)
    return False


class Classified:
    def __init__(self, cls, detail="", witness=None, ok=None):
        self.cls, self.detail, self.witness = cls, detail, witness
        self.ok = ok


GOOD = ("PROPAGATED", "RETURNED", "UNWRAPPED", "MATCHED")


def err_edge_of_switch(t, err_val):
    """Target block taken when the switched value equals err_val (Result: Err=1)."""
    explicit = {int(v): b for v, b in t["targets"]}
    if err_val in explicit:
        return explicit[err_val]
    return t["otherwise"]


def check_err_arm(fn, switch_bb, err_target, matched_locals):
    """Every path from err_target to a return (or back to the switch) must pass a signal block."""
    cfg = cfg_of(fn)
    sig = signal_blocks(fn, matched_locals)
    if err_target in sig:
        return True, sig[err_target], None
    r = cfg.reach([err_target], blocked=set(sig.keys()))
    bad_ret = [b for b in cfg.returns if b in r]
    loops_back = switch_bb in r
    if not bad_ret and not loops_back:
        used = sorted(set(sig[b] for b in sig if any(p in r for p in cfg.pred[b])))
        return True, ", ".join(used) or "diverges", None
    # the Err arm proper: blocks only reachable through the Err edge
    without = cfg.reach([0], blocked_edges=[(switch_bb, err_target)])
    arm = [b for b in cfg.reach([err_target]) if b not in without]
    some_signal = any(b in sig for b in arm)
    wit = dict(err_arm_entry="bb%d" % err_target,
               reaches=("return bb%d" % bad_ret[0]) if bad_ret else ("loop back to bb%d" % switch_bb),
               shape="swallow-some" if some_signal else "swallow-all",
               signal_free_blocks=sorted(r)[:40])
    return False, "Err arm reaches %s with no Err return / Error update" % (
        "the normal return" if bad_ret else "the loop again (retry)"), wit


def classify(fx, fn, local, depth=0, via="", seen=None):
    """Classify what happens to the fallible value held in `local`. Returns list[Classified]."""
    du = defuse(fn)
    res = []
    seen = seen if seen is not None else set()
    if local in seen or depth > 12:
        return res
    seen.add(local)
    if local == 0:
        return [Classified("RETURNED", via, ok=True)]
    for site, how in du.uses.get(local, []):
        n = site.node
        if site.is_term:
            k = n["k"]
            if k == "drop" or k == "assert":
                continue
            if k == "switch":
                continue
            if k != "call":
                continue
            if not how.startswith("arg"):
                continue
            ai = int(how[3:])
            o = callee_orig(n) or callee_path(n) or "<indirect>"
            if o == TRY_BRANCH:
                res.append(Classified("PROPAGATED", via + "?", ok=True))
                # a second Result layer (JoinHandle::join()??) is a new obligation found by the caller
            elif o in COMBINATORS and ai == 0:
                sub = classify(fx, fn, n["dest"]["l"], depth + 1, via + "%s -> " % o.split("::")[-1], seen)
                if not sub:
                    sub = [Classified("DISCARDED", via + "%s result unused" % o.split("::")[-1], ok=False)]
                res.extend(sub)
            elif o in UNWRAPS:
                res.append(Classified("UNWRAPPED", via + o.split("::")[-1], ok=True))
            elif o in PREDICATES:
                res.extend(_classify_bool(fx, fn, n["dest"]["l"], PREDICATES[o], via + o.split("::")[-1], local))
            elif o in DISCARDERS:
                res.append(Classified("DISCARDED", via + "fed to `%s`" % o.split("::")[-1], ok=False))
            elif o == "core::result::Result::<T, E>::as_ref" or o == "core::result::Result::<T, E>::as_mut" \
                    or o == "core::ops::deref::Deref::deref" or o == "core::clone::Clone::clone":
                res.extend(classify(fx, fn, n["dest"]["l"], depth + 1, via, seen))
            elif (callee_path(n) in fx.fns and ai < fx.fns[callee_path(n)].argc
                  and RESULT_RE.match(fx.fns[callee_path(n)].locals[ai + 1]["ty"])):
                # handed to a workspace function whose fallible parameter is an obligation of its own
                res.append(Classified("DELEGATED", via + "handled by %s (its parameter is checked there)"
                                      % callee_path(n), ok=True))
            else:
                res.append(Classified("PASSED", via + "passed to %s (arg %d)" % (o, ai), ok=False))
            continue
        if how != "rv":
            continue
        rv = n["rv"]
        k = rv["k"]
        lhs = n["lhs"]
        if k == "use":
            p = op_place(rv["op"])
            if p is not None and p["l"] == local:
                if p.get("p"):
                    # Option<Result<..>>: the Some payload *is* the fallible value (iterator items)
                    pr = p["p"]
                    if len(pr) == 2 and isinstance(pr[0], dict) and pr[0].get("dc") == "Some" \
                            and OPT_RESULT_RE.match(fn.locals[local]["ty"]) and not lhs.get("p"):
                        res.extend(classify(fx, fn, lhs["l"], depth + 1, via + "Some(item) -> ", seen))
                    continue   # other payload / field reads happen inside a match arm
                if lhs.get("p"):
                    res.append(Classified("STORED", via + "stored into a place", ok=False))
                else:
                    res.extend(classify(fx, fn, lhs["l"], depth + 1, via, seen))
        elif k == "ref":
            if rv["pl"]["l"] == local and not rv["pl"].get("p"):
                res.extend(classify(fx, fn, lhs["l"], depth + 1, via, seen))
        elif k == "discr":
            pr = [e for e in rv["pl"].get("p", []) if e != "deref"]
            if OPT_RESULT_RE.match(fn.locals[local]["ty"]):
                # `match opt_res { Some(Ok(..)) .., Some(Err(e)) .., None .. }`: the Result layer is the
                # discriminant of the Some payload; the Option layer itself is not a failure test
                if not (len(pr) == 2 and isinstance(pr[0], dict) and pr[0].get("dc") == "Some"):
                    continue
            elif pr:
                continue
            dl = lhs["l"]
            for s2, how2 in du.uses.get(dl, []):
                if how2 == "switch" and s2.is_term:
                    # drop-elaboration re-reads the discriminant; those switches only guard drops
                    if _is_drop_elab_switch(fn, s2):
                        continue
                    tgt = err_edge_of_switch(s2.node, 1)
                    ok, why, wit = check_err_arm(fn, s2.bb, tgt, {local})
                    res.append(Classified("MATCHED" if ok else "HANDLED-LOCALLY", via + why, wit, ok=ok))
        elif k == "agg":
            res.extend(classify(fx, fn, lhs["l"], depth + 1, via + "wrapped -> ", seen))
        elif k == "cast":
            res.extend(classify(fx, fn, lhs["l"], depth + 1, via, seen))
    return res


def _is_drop_elab_switch(fn, site):
    """A switch whose every target leads straight to Drop/goto-only blocks (no user statements):
    produced by drop elaboration for a partially moved enum, not by a `match`."""
    t = site.node
    sp = t["span"]
    # user matches carry the span of the scrutinee/match; elaboration switches carry the span of the
    # closing brace of the scope.  We do not look at text: we look at what the targets do.
    cfg = cfg_of(fn)
    for tb in set([b for _, b in t["targets"]] + [t["otherwise"]]):
        b = fn.blocks[tb]
        if b["stmts"]:
            # drop flags being cleared are the only statements elaboration emits
            for s in b["stmts"]:
                rv = s["rv"]
                if not (rv["k"] == "use" and "c" in rv["op"] and rv["op"]["c"]["ty"] == "bool"):
                    return False
        if b["term"]["k"] not in ("drop", "goto", "return", "resume", "unreachable"):
            return False
    return True


def _classify_bool(fx, fn, bl, fail_val, via, matched_local):
    """The fallible value was reduced to a bool (is_err/is_ok, `!= 0`): find the switch on it."""
    du = defuse(fn)
    out = []
    work, seen = [(bl, fail_val)], set()
    while work:
        l, fv = work.pop()
        if (l, fv) in seen:
            continue
        seen.add((l, fv))
        for site, how in du.uses.get(l, []):
            n = site.node
            if site.is_term and how == "switch":
                tgt = err_edge_of_switch(n, fv)
                ok, why, wit = check_err_arm(fn, site.bb, tgt, {matched_local})
                out.append(Classified("MATCHED" if ok else "HANDLED-LOCALLY", via + ": " + why, wit, ok=ok))
            elif not site.is_term and how == "rv":
                rv = n["rv"]
                if rv["k"] == "use" and not n["lhs"].get("p"):
                    work.append((n["lhs"]["l"], fv))
                elif rv["k"] == "un" and rv["op"] == "Not":
                    work.append((n["lhs"]["l"], 1 - fv))
                elif rv["k"] == "bin" and rv["op"] in ("Ne", "Eq"):
                    other = rv["b"] if op_local(rv["a"]) == l else rv["a"]
                    c = other.get("c")
                    if c is not None and c.get("v") == 0:
                        # x != 0 : failing (non-zero) makes the comparison true; x == 0: false
                        work.append((n["lhs"]["l"], 1 if rv["op"] == "Ne" else 0))
                    else:
                        out.append(Classified("COMPARED", via + ": compared with a non-constant", ok=False))
    if not out:
        out.append(Classified("DISCARDED", via + ": boolean never tested", ok=False))
    return out


def fallible_sites(fx, crates=None):
    """Yield (fn, block index, terminator, kind) for every in-scope fallible call site, in program order."""
    for path in sorted(fx.fns):
        f = fx.fns[path]
        if crates and f.crate not in crates:
            continue
        if not in_scope_fn(fx, f):
            continue
        for bi, t in f.calls():
            sp = t["span"]
            if span_excluded(sp):
                continue
            o = callee_orig(t) or callee_path(t) or ""
            dty = t.get("dest_ty", "")
            if o in STATUS_INT_CALLS:
                yield f, bi, t, "status_int"
            elif o in OPTION_ERR_CALLS:
                yield f, bi, t, "option_err"
            elif RESULT_RE.match(dty):
                if dty.endswith("core::fmt::Error>"):
                    continue
                # the plumbing of `?` and of combinators is not itself a fallible step
                if o in (TRY_BRANCH, FROM_RESIDUAL):
                    continue
                yield f, bi, t, "result"


def run(fx, crates=None, cfgname="A"):
    """All R-ERR obligations for the given crates. Returns list[Ob]."""
    obs = []
    sites = list(fallible_sites(fx, crates))
    counters = {}
    for f, bi, t, kind in sites:
        o = callee_orig(t) or callee_path(t) or "<indirect>"
        ordk = (f.path, o)
        ordinal = counters.get(ordk, 0)
        counters[ordk] = ordinal + 1
        key = mkkey("R-ERR", f.path, o, ordinal)
        loc = "%s:%d" % (t["span"]["file"], t["span"]["line"])
        dl = t["dest"]["l"]
        if t["dest"].get("p"):
            obs.append(Ob("R-ERR", key, False, loc, f.path, "fallible result written into a place projection",
                          cfg=cfgname))
            continue
        if kind == "status_int":
            cl = _classify_bool_from_int(fx, f, dl)
        elif kind == "option_err":
            cl = classify(fx, f, dl)
            if not cl:
                cl = [Classified("DISCARDED", "Option<Error> never inspected", ok=False)]
        else:
            if o in COMBINATORS or o in UNWRAPS:
                # combinator results are reached through their receiver's obligation; but a combinator
                # whose receiver is not itself a call result (e.g. a parameter) still needs checking
                pass
            cl = classify(fx, f, dl)
            if not cl:
                cl = [Classified("DISCARDED", "result never inspected", ok=False)]
        good = [c for c in cl if c.ok]
        bad = [c for c in cl if not c.ok]
        # an instance is satisfied when every consuming use is acceptable
        ok = bool(good) and not bad
        what = "%s: %s" % ("/".join(sorted(set(c.cls for c in cl))), "; ".join(c.detail for c in cl if c.detail)[:300])
        wit = None
        if not ok:
            wit = dict(callee=o, classes=[dict(cls=c.cls, detail=c.detail, witness=c.witness) for c in cl])
        ob = Ob("R-ERR", key, ok, loc, f.path, "%s -> %s" % (o, what), wit, cfg=cfgname)
        ob.shape = _shape(cl)
        obs.append(ob)
    # fallible values received as parameters (closure |der| over an iterator of Results)
    for path in sorted(fx.fns):
        f = fx.fns[path]
        if crates and f.crate not in crates:
            continue
        if not in_scope_fn(fx, f):
            continue
        for l in range(1, f.argc + 1):
            ty = f.locals[l]["ty"]
            # closures take their arguments as a tuple in the ABI but MIR spreads them as locals
            if RESULT_RE.match(ty) and not ty.endswith("core::fmt::Error>"):
                cl = classify(fx, f, l)
                if not cl:
                    cl = [Classified("DISCARDED", "fallible parameter never inspected", ok=False)]
                ok = all(c.ok for c in cl)
                key = mkkey("R-ERR", f.path, "param:" + ty.split("<")[0], l)
                what = "fallible parameter _%d (%s) -> %s: %s" % (
                    l, f.name_of_local.get(l, "?"), "/".join(sorted(set(c.cls for c in cl))),
                    "; ".join(c.detail for c in cl if c.detail)[:200])
                ob = Ob("R-ERR", key, ok, f.loc(), f.path, what,
                        None if ok else dict(classes=[dict(cls=c.cls, detail=c.detail, witness=c.witness)
                                                      for c in cl]), cfg=cfgname)
                ob.shape = _shape(cl)
                obs.append(ob)
    # iterator adaptors that drop or skip items unseen, over an iterator of Results
    counters2 = {}
    for path in sorted(fx.fns):
        f = fx.fns[path]
        if crates and f.crate not in crates:
            continue
        if not in_scope_fn(fx, f):
            continue
        for bi, t in f.calls():
            if span_excluded(t["span"]):
                continue
            o = callee_orig(t) or ""
            it = (t.get("fn") or {}).get("iter_item", "")
            if o in SWALLOWING_ADAPTORS and RESULT_RE.match(it) and not it.endswith("core::fmt::Error>"):
                n = counters2.get((f.path, o), 0)
                counters2[(f.path, o)] = n + 1
                ob = Ob("R-ERR", mkkey("R-ERR", f.path, o, n, "adaptor"), False,
                        "%s:%d" % (t["span"]["file"], t["span"]["line"]), f.path,
                        "%s over an iterator of %s -> DISCARDED: Err items are dropped without being looked at"
                        % (o.split("::")[-1], it.split("<")[0].split("::")[-1]), dict(callee=o, item=it), cfg=cfgname)
                ob.shape = "discarded"
                obs.append(ob)
    # second Result layers: Continue payload of a `?` that is itself a Result (JoinHandle::join()??)
    obs.extend(_nested_layers(fx, crates, cfgname))
    return obs


def _shape(cl):
    """Shape of a failing instance, matched by allow-list entries: which kind of swallowing it is."""
    shapes = set()
    for c in cl:
        if c.ok:
            continue
        if c.cls == "HANDLED-LOCALLY":
            shapes.add((c.witness or {}).get("shape", "swallow-all"))
        else:
            shapes.add(c.cls.lower())
    return "+".join(sorted(shapes))


def _classify_bool_from_int(fx, fn, dl):
    """C status return: must be compared with 0 and the non-zero branch must fail."""
    return _classify_bool(fx, fn, dl, 1, "status", dl) if False else _int_status(fx, fn, dl)


def _int_status(fx, fn, dl):
    du = defuse(fn)
    out = []
    work, seen = [dl], set()
    while work:
        l = work.pop()
        if l in seen:
            continue
        seen.add(l)
        for site, how in du.uses.get(l, []):
            n = site.node
            if site.is_term:
                if how == "switch":
                    # switch directly on the integer: 0 -> ok, otherwise -> failure
                    explicit = {int(v): b for v, b in n["targets"]}
                    tgt = n["otherwise"] if 0 in explicit else None
                    if tgt is None:
                        out.append(Classified("COMPARED", "status switched without a zero arm", ok=False))
                    else:
                        ok, why, wit = check_err_arm(fn, site.bb, tgt, {dl})
                        out.append(Classified("MATCHED" if ok else "HANDLED-LOCALLY", "status: " + why, wit, ok=ok))
                continue
            if how != "rv":
                continue
            rv = n["rv"]
            if rv["k"] in ("use", "cast") and not n["lhs"].get("p"):
                work.append(n["lhs"]["l"])
            elif rv["k"] == "bin" and rv["op"] in ("Ne", "Eq", "Lt", "Gt"):
                other = rv["b"] if op_local(rv["a"]) == l else rv["a"]
                c = other.get("c")
                if c is not None and c.get("v") == 0:
                    fv = 0 if rv["op"] == "Eq" else 1
                    out.extend(_classify_bool(fx, fn, n["lhs"]["l"], fv, "status %s 0" % rv["op"], dl))
                else:
                    out.append(Classified("COMPARED", "status compared with a non-zero constant", ok=False))
    if not out:
        out.append(Classified("DISCARDED", "C status return never tested", ok=False))
    return out


def _nested_layers(fx, crates, cfgname):
    """`x??`: the Continue payload of the first `?` is itself a Result and must be consumed properly."""
    obs = []
    for path in sorted(fx.fns):
        f = fx.fns[path]
        if crates and f.crate not in crates:
            continue
        if not in_scope_fn(fx, f):
            continue
        n = 0
        for bi, b in enumerate(f.blocks):
            if b.get("cleanup"):
                continue
            for s in b["stmts"]:
                rv = s["rv"]
                if rv["k"] != "use":
                    continue
                p = op_place(rv["op"])
                if p is None or not p.get("p"):
                    continue
                pr = p["p"]
                if len(pr) == 2 and isinstance(pr[0], dict) and pr[0].get("dc") == "Continue":
                    lt = f.locals[s["lhs"]["l"]]["ty"]
                    if RESULT_RE.match(lt) and not s["lhs"].get("p"):
                        cl = classify(fx, f, s["lhs"]["l"])
                        if not cl:
                            cl = [Classified("DISCARDED", "inner Result never inspected", ok=False)]
                        ok = all(c.ok for c in cl)
                        key = mkkey("R-ERR", f.path, "inner-result-of-?", n)
                        n += 1
                        loc = "%s:%d" % (s["span"]["file"], s["span"]["line"])
                        obs.append(Ob("R-ERR", key, ok, loc, f.path,
                                      "inner Result layer -> %s" % "/".join(sorted(set(c.cls for c in cl))),
                                      None if ok else dict(classes=[dict(cls=c.cls, detail=c.detail) for c in cl]),
                                      cfg=cfgname))
    return obs
