"""R-SHORT (buffer discipline): what a short read delivered is written out before the next read overwrites it.

A user-space copy loop reads into a buffer and must tolerate `read` returning fewer bytes than asked (C05).  Two
shapes are sound:

  drain-per-read   loop { n = read(&mut buf[..k]); write_all(&buf[..n]) }      the write is inside the loop
  fill-then-write  loop { n = read(&mut buf[filled..]); filled += n } write(..)  the read position advances

A loop that reads into the *same* position on every iteration (whole buffer, `buf[..k]`, a range whose start does
not change in the loop) and has no write of any kind in the loop, reachable from the read, loses every chunk but the
last whenever a read is short -- and is indistinguishable from a correct loop as long as reads are full, which is
all the test suite ever sees.  Shapes that are not recognised (the slice comes from something other than an index
expression on a local buffer) are listed as undecided.
"""
from cfg import cfg_of, defuse, whole_defs, op_local, op_place, callee_orig, callee_path
from engine import Ob, mkkey
import q
import r_order as ro
from names import *

READERS = {READ: 1, PREAD: 1, "std::io::Read::read_exact": 1}
WRITERS = {WRITE, WRITE_ALL, PWRITE}


def _slice_origin(f, l, body):
    """('start', why) | ('advancing', why) | ('unknown', why) for the buffer slice held by local l."""
    for _ in range(12):
        ds = whole_defs(f, l)
        if len(ds) != 1:
            return "unknown", "several definitions"
        s = ds[0]
        if not s.is_term:
            rv = s.node["rv"]
            if rv["k"] in ("ref", "rawptr"):
                pl = rv["pl"]
            elif rv["k"] in ("use", "cast"):
                pl = op_place(rv["op"])
                if pl is None:
                    return "unknown", "constant"
            else:
                return "unknown", "rvalue %s" % rv["k"]
            if any(isinstance(e, dict) and "f" in e for e in pl.get("p", [])):
                return "unknown", "field projection"
            if not whole_defs(f, pl["l"]) or (len(whole_defs(f, pl["l"])) == 1 and whole_defs(f, pl["l"])[0].is_term and
                                               "index" not in (callee_orig(whole_defs(f, pl["l"])[0].node) or "").lower()
                                               and "deref" not in (callee_orig(whole_defs(f, pl["l"])[0].node) or "").lower()
                                               and "as_mut" not in (callee_orig(whole_defs(f, pl["l"])[0].node) or "").lower()):
                # a parameter, or the buffer itself (`vec![..]`, `Vec::with_capacity`, an array): the whole buffer
                return "start", "the whole buffer `%s`" % f.name_of_local.get(pl["l"], "_%d" % pl["l"])
            l = pl["l"]
            continue
        t = s.node
        if t["k"] != "call":
            return "unknown", "terminator"
        o = callee_orig(t) or ""
        if o.endswith(("Index::index", "IndexMut::index_mut")) and len(t["args"]) == 2:
            rl = op_local(t["args"][1])
            rds = whole_defs(f, rl) if rl is not None else []
            while len(rds) == 1 and not rds[0].is_term and rds[0].node["rv"]["k"] == "use" and op_local(rds[0].node["rv"]["op"]) is not None:
                rds = whole_defs(f, op_local(rds[0].node["rv"]["op"]))
            if len(rds) != 1 or rds[0].is_term or rds[0].node["rv"]["k"] != "agg":
                return "unknown", "index by a computed range"
            rv = rds[0].node["rv"]
            adt = rv.get("adt") or ""
            if "RangeTo" in adt or "RangeFull" in adt:
                return "start", "`buf[..k]`"
            if "RangeFrom" in adt or adt.endswith("::Range") or "range::Range" in adt:
                so = rv["fields"][0]
                if "c" in so:
                    return ("start", "`buf[0..]`") if so["c"].get("v") == 0 else ("unknown", "constant non-zero start")
                sl = op_local(so)
                if _varies_in(f, sl, body):
                    return "advancing", "the range starts at a value that changes in the loop"
                return "start", "the range starts at a value that does not change in the loop"
            return "unknown", "index by %s" % adt
        if o.endswith(("DerefMut::deref_mut", "Deref::deref", "as_mut_slice", "as_mut", "AsMut::as_mut", "borrow_mut")) and t["args"]:
            al = op_local(t["args"][0])
            if al is None:
                return "unknown", "call on a constant"
            l = al
            continue
        return "unknown", "result of %s" % (o.split("::")[-1] or "a call")
    return "unknown", "chain too long"


def _varies_in(f, l, body, depth=0, seen=None):
    """Some definition feeding local l lies inside the loop body and is not loop-invariant (an accumulator)."""
    seen = set() if seen is None else seen
    if l is None or l in seen or depth > 8:
        return False
    seen.add(l)
    du = defuse(f)
    defs = du.defs.get(l, [])
    outside = [s for s, w in defs if s.bb not in body]
    inside = [s for s, w in defs if s.bb in body]
    if inside and outside:
        return True          # assigned before the loop and again inside it
    for s in inside:
        if s.is_term:
            continue
        rv = s.node["rv"]
        srcs = []
        if rv["k"] in ("use", "cast"):
            srcs = [op_local(rv["op"])]
        elif rv["k"] == "bin":
            srcs = [op_local(rv["a"]), op_local(rv["b"])]
        elif rv["k"] in ("ref",):
            srcs = [rv["pl"]["l"]]
        if any(_varies_in(f, x, body, depth + 1, seen) for x in srcs if x is not None):
            return True
    return False


def buffers_drained(fx, cfgname="A"):
    obs, notes = [], []
    counters = {}
    for f in ro.fns_in_scope(fx, crates=("libxcp", "libfs")):
        cfg = None
        for bi, t in f.calls():
            o, p = q.names(t)
            key = o if o in READERS else (p if p in READERS else None)
            if key is None or q.span_excluded(t["span"]):
                continue
            cfg = cfg or cfg_of(f)
            loops = [(h, body) for h, body in cfg.loops().items() if bi in body]
            if not loops:
                continue
            h, body = min(loops, key=lambda x: len(x[1]))
            bl = op_local(t["args"][READERS[key]]) if len(t["args"]) > READERS[key] else None
            if bl is None:
                continue
            kind, why = _slice_origin(f, bl, body)
            n = counters.get((f.path, key), 0)
            counters[(f.path, key)] = n + 1
            if kind == "unknown":
                notes.append(dict(site=q.loc_of(t), fn=f.path, undecided=why))
                continue
            if kind == "advancing":
                obs.append(Ob("R-SHORT", mkkey("R-SHORT", f.path, key, n, "buffer-drained"), True, q.loc_of(t), f.path,
                              "read in a loop: %s (fill-then-write)" % why, cfg=cfgname))
                continue
            reach = cfg.reach([bi]) & body
            allw = ro.performers(fx, f, WRITERS)
            if not allw:
                # the function writes nothing at all: it reads to compare, hash or parse, not to copy
                notes.append(dict(site=q.loc_of(t), fn=f.path, undecided="the function performs no write: not a copy loop"))
                continue
            ws = [b for (b, _t, _h) in allw if b in reach]
            ok = bool(ws)
            obs.append(Ob("R-SHORT", mkkey("R-SHORT", f.path, key, n, "buffer-drained"), ok, q.loc_of(t), f.path,
                          "read in a loop into %s on every iteration: %s" % (
                              why, "a write inside the loop drains it before the next read" if ok else
                              "NO write inside the loop -- after a short read the next chunk overwrites the previous one"),
                          None if ok else dict(loop_header="bb%d" % h), cfg=cfgname))
    buffers_drained.notes = notes
    return obs
