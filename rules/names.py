"""Anchor names (resolved item paths) and library-semantics tables.
Tables are deny-lists enumerated from the libraries' documentation; an external
callee not listed is presumed neutral (DESIGN.md section 3, R-WHO)."""

# ---- workspace anchors ----------------------------------------------------
CONFIG = "libxcp::config::Config"
OPTS = "xcp::options::Opts"
COPYHANDLE = "libxcp::operations::CopyHandle"
OPERATION = "libxcp::operations::Operation"
STATUS_UPDATE = "libxcp::feedback::StatusUpdate"
SEND = "libxcp::feedback::StatusUpdater::send"

NEW = "libxcp::operations::CopyHandle::new"
DROP = "<libxcp::operations::CopyHandle as core::ops::drop::Drop>::drop"
FINALISE = "libxcp::operations::CopyHandle::finalise_copy"
COPY_BYTES = "libxcp::operations::CopyHandle::copy_bytes"
COPY_SPARSE = "libxcp::operations::CopyHandle::copy_sparse"
COPY_FILE = "libxcp::operations::CopyHandle::copy_file"
TRY_REFLINK = "libxcp::operations::CopyHandle::try_reflink"
WALKER = "libxcp::operations::tree_walker"
PF_COPY = "<libxcp::drivers::parfile::Driver as libxcp::drivers::CopyDriver>::copy"
PB_COPY = "<libxcp::drivers::parblock::Driver as libxcp::drivers::CopyDriver>::copy"
PF_WORKER = "libxcp::drivers::parfile::copy_worker"
PB_DISPATCH = "libxcp::drivers::parblock::dispatch_worker"
PB_QFB = "libxcp::drivers::parblock::queue_file_blocks"
PB_QFR = "libxcp::drivers::parblock::queue_file_range"
MAIN = "xcp::main"
DRIVER_COPY = "libxcp::drivers::CopyDriver::copy"
LOAD_DRIVER = "libxcp::drivers::load_driver"

ENTRY_POINTS = [PF_COPY, PB_COPY]

# ---- std / third-party primitives (unresolved item paths) -----------------
FILE_CREATE = "std::fs::File::create"
FILE_OPEN = "std::fs::File::open"
RENAME = "std::fs::rename"
REMOVE_FILE = "std::fs::remove_file"
CREATE_DIR_ALL = "std::fs::create_dir_all"
SYMLINK = "std::os::unix::fs::symlink"
MKNODAT = "rustix::fs::at::mknodat"
FTRUNCATE = "rustix::fs::fd::ftruncate"
FSYNC = "rustix::fs::fd::fsync"
FCHOWN = "std::os::unix::fs::fchown"
SET_PERMISSIONS = "std::fs::File::set_permissions"
SET_TIMES = "std::fs::File::set_times"
SET_XATTR = "xattr::FileExt::set_xattr"
COPY_FILE_RANGE = "rustix::fs::copy_file_range::copy_file_range"
PREAD = "rustix::io::read_write::pread"
PWRITE = "rustix::io::read_write::pwrite"
READ = "std::io::Read::read"
WRITE = "std::io::Write::write"
WRITE_ALL = "std::io::Write::write_all"
IOCTL = "libc::unix::linux_like::linux::ioctl"
SEEK = "rustix::fs::fd::seek"
SPAWN = "std::thread::functions::spawn"
JOIN = "std::thread::join_handle::JoinHandle::<T>::join"
POOL_EXECUTE = "blocking_threadpool::ThreadPool::execute"
POOL_JOIN = "blocking_threadpool::ThreadPool::join"
UNBOUNDED = "crossbeam_channel::channel::unbounded"
BOUNDED = "crossbeam_channel::channel::bounded"
CB_SEND = "crossbeam_channel::channel::Sender::<T>::send"

# filesystem-mutating primitives (path- or fd-based)
MUTATING = {
    FILE_CREATE, "std::fs::OpenOptions::open", "std::fs::File::create_new", "std::fs::File::options",
    CREATE_DIR_ALL, "std::fs::create_dir", "std::fs::DirBuilder::create",
    "std::fs::remove_dir", "std::fs::remove_dir_all", REMOVE_FILE, RENAME, "std::fs::write", "std::fs::copy",
    "std::fs::hard_link", "std::fs::soft_link", "std::fs::set_permissions",
    "std::fs::File::set_len", SET_PERMISSIONS, SET_TIMES, "std::fs::File::set_modified",
    SYMLINK, FCHOWN, "std::os::unix::fs::chown", "std::os::unix::fs::lchown",
    MKNODAT, FTRUNCATE, "rustix::fs::fd::fallocate", "rustix::fs::at::mkdirat", "rustix::fs::at::unlinkat",
    "rustix::fs::at::renameat", "rustix::fs::at::symlinkat", "rustix::fs::at::linkat",
    SET_XATTR, "xattr::set", "xattr::FileExt::remove_xattr", IOCTL, COPY_FILE_RANGE, PWRITE, WRITE, WRITE_ALL,
}
# destructive path primitives (C03(c)/C08(c)): who may call them. `fn@Variant` = only inside that arm of the
# worker's dispatch on Operation (helpers reached only from there are followed)
DESTRUCTIVE = {
    FILE_CREATE: {NEW, "libfs::common::copy_file"},
    "std::fs::OpenOptions::open": set(),
    "std::fs::File::create_new": set(),
    RENAME: {NEW},
    REMOVE_FILE: {PF_WORKER + "@Special", PB_DISPATCH + "@Special"},
    "std::fs::remove_dir": set(), "std::fs::remove_dir_all": set(),
    "std::fs::write": set(), "std::fs::copy": set(), "std::fs::hard_link": set(),
    "std::fs::create_dir": set(),
    CREATE_DIR_ALL: {WALKER},
    SYMLINK: {PF_WORKER + "@Link", PB_DISPATCH + "@Link"},
    MKNODAT: {"libfs::linux::copy_node"},
    FTRUNCATE: {"libfs::common::allocate_file"},
    "std::fs::File::set_len": set(),
}
# data-writing primitives on the destination descriptor
DATA_WRITERS = {COPY_FILE_RANGE, PWRITE, WRITE, WRITE_ALL, FTRUNCATE, "std::fs::File::set_len",
                "rustix::fs::fd::fallocate", IOCTL}
# cursor-based (shared file offset) primitives: forbidden in block jobs
CURSOR_BASED = {READ, WRITE, WRITE_ALL, SEEK, "std::io::Seek::seek", "std::io::Read::read_exact",
                "std::io::Read::read_to_end", "libfs::linux::copy_file_bytes", "libfs::fallback::copy_file_bytes",
                "libfs::common::copy_bytes_uspace"}
# calls that may block waiting for another thread
BLOCKING = {JOIN, POOL_JOIN, POOL_EXECUTE, "crossbeam_channel::channel::Receiver::<T>::recv",
            "crossbeam_channel::channel::Receiver::<T>::iter",
            "<crossbeam_channel::channel::Receiver<T> as core::iter::traits::collect::IntoIterator>::into_iter",
            "<crossbeam_channel::channel::IntoIter<T> as core::iter::traits::iterator::Iterator>::next",
            "std::sync::mpsc::Receiver::<T>::recv", "std::sync::Mutex::<T>::lock", "std::sync::Condvar::wait",
            "std::sync::Barrier::wait", "std::thread::park", "std::thread::sleep"}
# probes that follow a final symlink
LINK_FOLLOWING = {"std::path::Path::exists", "std::path::Path::is_dir", "std::path::Path::is_file",
                  "std::path::Path::metadata", "std::fs::metadata", "std::path::Path::try_exists", "std::fs::exists"}
LSTAT = {"std::path::Path::symlink_metadata", "std::fs::symlink_metadata", "std::path::Path::is_symlink"}
# lossy or partial OsStr/Path -> str conversions
LOSSY = {"std::ffi::os_str::OsStr::to_str", "std::ffi::os_str::OsStr::to_string_lossy", "std::path::Path::to_str",
         "std::path::Path::to_string_lossy", "std::path::Path::display", "std::ffi::os_str::OsString::into_string"}
