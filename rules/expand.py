"""Combinator expansion: calls of the std Option/Result/bool/Iterator combinators that take a closure (or a function
item) are rewritten into the explicit control flow they stand for, with the closure *called* at the right place, so
that the inliner can splice the closure body in and gates, orderings, error arms and data flow are the same
whether the author wrote `r.and_then(|x| f(x))`, `match r { Ok(x) => f(x), Err(e) => Err(e) }` or a `for` loop
instead of `try_for_each`.

Only the shapes are modelled (which arm runs the closure, what is wrapped in what, when a loop ends); that is all
the rules look at.  Anything not recognised is left as the call it was (the closure then stays opaque, as before).

    Result:  map  map_err  and_then  or_else  unwrap_or_else  is_ok_and  is_err_and  map_or  inspect  inspect_err
    Option:  map  and_then  or_else  ok_or_else  unwrap_or_else  is_some_and  is_none_or  map_or  map_or_else  filter  inspect
    bool:    then  then_some          Option::ok_or
    Iterator (consumers, as loops over `next`):  for_each  try_for_each  any  all  find_map  fold  try_fold
"""
import copy

import facts

R = "core::result::Result::<T, E>::"
O = "core::option::Option::<T>::"
I = "core::iter::traits::iterator::Iterator::"
NEXT = I + "next"

RES = "core::result::Result"
OPT = "core::option::Option"
CF = "core::ops::control_flow::ControlFlow"
RES_V = [{"val": "0", "name": "Ok"}, {"val": "1", "name": "Err"}]
OPT_V = [{"val": "0", "name": "None"}, {"val": "1", "name": "Some"}]
CF_V = [{"val": "0", "name": "Continue"}, {"val": "1", "name": "Break"}]


CTORS = {"core::option::Option::Some": (OPT, "Some"), "core::result::Result::Ok": (RES, "Ok"),
         "core::result::Result::Err": (RES, "Err"), "core::ops::control_flow::ControlFlow::Continue": (CF, "Continue"),
         "core::ops::control_flow::ControlFlow::Break": (CF, "Break")}


def split_generics(ty):
    """'core::result::Result<A<B, C>, D>' -> ('core::result::Result', ['A<B, C>', 'D'])"""
    i = ty.find("<")
    if i < 0 or not ty.endswith(">"):
        return ty, []
    head, body = ty[:i], ty[i + 1:-1]
    out, depth, cur = [], 0, ""
    for ch in body:
        if ch in "<([":
            depth += 1
        elif ch in ">)]":
            depth -= 1
        if ch == "," and depth == 0:
            out.append(cur.strip())
            cur = ""
        else:
            cur += ch
    if cur.strip():
        out.append(cur.strip())
    return head, out


class _B:
    """Builder of synthetic blocks appended to a function."""

    def __init__(self, blocks, locals_, span, origin):
        self.blocks = blocks
        self.locals = locals_
        self.span = span
        self.origin = origin

    def local(self, ty):
        self.locals.append({"ty": ty, "synthetic": True})
        return len(self.locals) - 1

    def block(self):
        self.blocks.append({"stmts": [], "term": {"k": "unreachable", "span": self.span}, "origin": self.origin,
                            "synthetic": True})
        return len(self.blocks) - 1

    def stmt(self, b, lhs, rv):
        self.blocks[b]["stmts"].append({"lhs": {"l": lhs} if isinstance(lhs, int) else lhs, "rv": rv, "span": self.span})

    def goto(self, b, tgt):
        self.blocks[b]["term"] = {"k": "goto", "target": tgt, "span": self.span}

    def switch_discr(self, b, enum_local, adt, variants, ty, by_name):
        d = self.local("isize")
        self.stmt(b, d, {"k": "discr", "pl": {"l": enum_local}, "ty": ty, "adt": adt, "variants": variants})
        unreachable = self.block()
        targets = []
        for v in variants:
            if v["name"] in by_name:
                targets.append([int(v["val"]), by_name[v["name"]]])
        self.blocks[b]["term"] = {"k": "switch", "op": {"mv": {"l": d}}, "op_ty": "isize", "targets": targets,
                                  "otherwise": unreachable, "span": self.span}

    def switch_bool(self, b, bool_local, true_t, false_t):
        self.blocks[b]["term"] = {"k": "switch", "op": {"mv": {"l": bool_local}}, "op_ty": "bool",
                                  "targets": [[0, false_t]], "otherwise": true_t, "span": self.span}

    def payload(self, b, dst, enum_local, variant):
        self.stmt(b, dst, {"k": "use", "op": {"mv": {"l": enum_local, "p": [{"dc": variant}, {"f": 0}]}}})

    def wrap(self, b, dst, adt, variant, op):
        self.stmt(b, dst, {"k": "agg", "ak": "adt", "adt": adt, "variant": variant, "fnames": ["0"] if op is not None else [],
                           "fields": [op] if op is not None else []})

    def const_bool(self, b, dst, v):
        self.stmt(b, dst, {"k": "use", "op": {"c": {"ty": "bool", "v": 1 if v else 0}}})

    def unit(self, b, dst):
        self.stmt(b, dst, {"k": "agg", "ak": "tuple", "fields": []})

    def call_fnlike(self, b, callee, arg_ops, arg_tys, dst, dst_ty, tgt):
        """Call the closure / function item `callee` (descriptor from _callee_of) with the given arguments."""
        ctor = None if callee["closure"] else CTORS.get(callee["fn"].get("orig") or callee["fn"].get("path"))
        if ctor is not None and len(arg_ops) == 1:
            # `.map(Some)`, `.map_err(Err)`: a variant constructor used as a function is the aggregate itself
            self.wrap(b, dst, ctor[0], ctor[1], arg_ops[0])
            self.goto(b, tgt)
            return
        if callee["closure"]:
            tup = self.local("(%s)" % ", ".join(arg_tys))
            self.stmt(b, tup, {"k": "agg", "ak": "tuple", "fields": arg_ops})
            self.blocks[b]["term"] = {
                "k": "call", "span": self.span,
                "fn": {"orig": "core::ops::function::FnOnce::call_once", "path": callee["path"], "kind": "item", "local": True,
                       "fnvals": [callee["path"]], "trait": "core::ops::function::FnOnce"},
                "args": [callee["op"], {"mv": {"l": tup}}], "arg_tys": ["{closure}", "(%s)" % ", ".join(arg_tys)],
                "dest": {"l": dst}, "dest_ty": dst_ty, "target": tgt}
        else:
            self.blocks[b]["term"] = {
                "k": "call", "span": self.span,
                "fn": dict(callee["fn"]),
                "args": arg_ops, "arg_tys": arg_tys, "dest": {"l": dst}, "dest_ty": dst_ty, "target": tgt}


def _callee_of(fx, fn, t, ai):
    """The closure or function item passed as argument ai of call t."""
    a = t["args"][ai]
    c = a.get("c")
    if c is not None and "fn" in c:
        f = c["fn"]
        return {"closure": False, "fn": {"orig": f.get("orig", f.get("path")), "path": f.get("path"), "kind": "item",
                                         "local": f.get("path") in fx.fns}}
    pl = a.get("mv") or a.get("cp")
    if pl is None or pl.get("p"):
        return None
    ty = fn.locals[pl["l"]]["ty"]
    fv = [x for x in (t.get("fn") or {}).get("fnvals", []) if x in fx.fns and fx.fns[x].is_closure]
    import re as _re
    generic = bool(_re.match(r"^(&mut |&)?[A-Z][A-Za-z0-9]*$", ty))
    if generic:
        # inside an inlined generic helper (`fn each<F: FnMut(..)>(.., f: F) { it.try_for_each(f) }`) the callable has
        # the parameter's type; which closure it is was resolved by provenance (inline.resolve_closures)
        import inline as _inl
        c_ = _inl.closure_of(fx, fn, a)
        if c_ is not None and c_ in fx.fns:
            return {"closure": True, "path": c_, "op": a}
        return None
    if "closure" not in ty:
        return None
    if len(fv) > 1:
        # several closures are mentioned by the call's generic arguments (an adaptor's closure is part of the
        # iterator's type): the one passed here is the one whose definition span the argument's type names
        def tag(g):
            sp = g.span
            return "closure@%s:%d:%d" % (sp.get("file"), sp.get("line"), sp.get("col", 0))
        fv = [x for x in fv if tag(fx.fns[x]) in ty]
    if len(fv) != 1:
        return None
    return {"closure": True, "path": fv[0], "op": a}


def _ret_ty(fx, callee):
    p = callee["path"] if callee["closure"] else callee["fn"].get("path")
    g = fx.fns.get(p)
    return g.locals[0]["ty"] if g is not None else "?"


def _expand_one(fx, fn, bi, t, blocks, locals_):
    """Rewrite call terminator t of block bi; returns True if rewritten."""
    f = t.get("fn") or {}
    o = f.get("orig")
    if o is None or t.get("target") is None or t["dest"].get("p"):
        return False
    args = t["args"]
    tys = t.get("arg_tys", [])
    dest = t["dest"]["l"]
    dty = t.get("dest_ty", "?")
    B = _B(blocks, locals_, t["span"], blocks[bi].get("origin", fn.path))
    end = t["target"]

    def recv_local():
        a = args[0]
        pl = a.get("mv") or a.get("cp")
        if pl is None:
            return None
        if pl.get("p"):
            l = B.local(tys[0] if tys else "?")
            return l, {"k": "use", "op": a}
        return pl["l"], None

    def start(kind):
        """Common prologue for Option/Result receivers: returns (receiver local, [payload types])."""
        rl = recv_local()
        if rl is None:
            return None
        l, pre = rl
        head, ga = split_generics(tys[0] if tys else "")
        if kind == "res" and (head != RES or len(ga) != 2):
            return None
        if kind == "opt" and (head != OPT or len(ga) != 1):
            return None
        b0 = B.block()
        if pre is not None:
            B.stmt(b0, l, pre)
        return l, ga, b0

    # ---------------- Result ----------------
    if o.startswith(R) and o[len(R):] in ("inspect_err", "inspect") and len(args) == 2:
        # the closure looks at a reference to the payload; the Result passes through unchanged
        m = o[len(R):]
        cal = _callee_of(fx, fn, t, 1)
        st = start("res")
        if cal is None or st is None:
            return False
        r, (T, E), b0 = st
        ok_b, err_b = B.block(), B.block()
        B.switch_discr(b0, r, RES, RES_V, tys[0], {"Ok": ok_b, "Err": err_b})
        hit, other = (err_b, ok_b) if m == "inspect_err" else (ok_b, err_b)
        var, PT = ("Err", E) if m == "inspect_err" else ("Ok", T)
        ref = B.local("&" + PT)
        B.stmt(hit, ref, {"k": "ref", "mut": False, "pl": {"l": r, "p": [{"dc": var}, {"f": 0}]}})
        u = B.local("()")
        k = B.block()
        B.call_fnlike(hit, cal, [{"mv": {"l": ref}}], ["&" + PT], u, "()", k)
        B.stmt(k, dest, {"k": "use", "op": {"mv": {"l": r}}})
        B.goto(k, end)
        B.stmt(other, dest, {"k": "use", "op": {"mv": {"l": r}}})
        B.goto(other, end)
        blocks[bi]["term"] = {"k": "goto", "target": b0, "span": t["span"], "expanded": o}
        return True

    # ---------------- anyhow::Context ----------------
    if o in ("anyhow::Context::context", "anyhow::Context::with_context") and len(args) == 2:
        # `r.context(c)` / `r.with_context(|| c)`: Ok passes through, an Err stays an Err (wrapped with a message);
        # on an Option receiver None becomes an Err
        head, ga = split_generics(tys[0] if tys else "")
        cal = None
        if o.endswith("with_context"):
            cal = _callee_of(fx, fn, t, 1)
            if cal is None:
                return False
        if head == RES and len(ga) == 2:
            st = start("res")
            if st is None:
                return False
            r, (T, E), b0 = st
            ok_b, err_b = B.block(), B.block()
            B.switch_discr(b0, r, RES, RES_V, tys[0], {"Ok": ok_b, "Err": err_b})
            x = B.local(T)
            e = B.local(E)
            B.payload(ok_b, x, r, "Ok")
            B.wrap(ok_b, dest, RES, "Ok", {"mv": {"l": x}})
            B.goto(ok_b, end)
            B.payload(err_b, e, r, "Err")
            cur = err_b
            if cal is not None:
                c_ = B.local(_ret_ty(fx, cal))
                k = B.block()
                B.call_fnlike(cur, cal, [], [], c_, _ret_ty(fx, cal), k)
                cur = k
            resid = B.local("core::result::Result<core::convert::Infallible, %s>" % E)
            B.wrap(cur, resid, RES, "Err", {"mv": {"l": e}})
            blocks[cur]["term"] = {
                "k": "call", "span": t["span"],
                "fn": {"orig": "core::ops::try_trait::FromResidual::from_residual", "kind": "item", "local": False,
                       "path": "<core::result::Result<T, F> as core::ops::try_trait::FromResidual<core::result::Result<core::convert::Infallible, E>>>::from_residual"},
                "args": [{"mv": {"l": resid}}], "arg_tys": ["core::result::Result<core::convert::Infallible, %s>" % E],
                "dest": {"l": dest}, "dest_ty": dty, "target": end}
            blocks[bi]["term"] = {"k": "goto", "target": b0, "span": t["span"], "expanded": o}
            return True
        if head == OPT and len(ga) == 1:
            st = start("opt")
            if st is None:
                return False
            r, (T,), b0 = st
            some_b, none_b = B.block(), B.block()
            B.switch_discr(b0, r, OPT, OPT_V, tys[0], {"Some": some_b, "None": none_b})
            x = B.local(T)
            B.payload(some_b, x, r, "Some")
            B.wrap(some_b, dest, RES, "Ok", {"mv": {"l": x}})
            B.goto(some_b, end)
            cur = none_b
            if cal is not None:
                c_ = B.local(_ret_ty(fx, cal))
                k = B.block()
                B.call_fnlike(cur, cal, [], [], c_, _ret_ty(fx, cal), k)
                cur = k
            y = B.local("anyhow::Error")
            k2 = B.block()
            blocks[cur]["term"] = {"k": "call", "span": t["span"],
                                   "fn": {"orig": "anyhow::Error::msg", "path": "anyhow::Error::msg", "kind": "item", "local": False},
                                   "args": [], "arg_tys": [], "dest": {"l": y}, "dest_ty": "anyhow::Error", "target": k2}
            B.wrap(k2, dest, RES, "Err", {"mv": {"l": y}})
            B.goto(k2, end)
            blocks[bi]["term"] = {"k": "goto", "target": b0, "span": t["span"], "expanded": o}
            return True
        return False

    if o.startswith(R) and o[len(R):] in ("map", "map_err", "and_then", "or_else", "unwrap_or_else", "is_ok_and", "is_err_and", "map_or"):
        m = o[len(R):]
        ci = 2 if m == "map_or" else 1
        if len(args) <= ci:
            return False
        cal = _callee_of(fx, fn, t, ci)
        st = start("res")
        if cal is None or st is None:
            return False
        r, (T, E), b0 = st
        ok_b, err_b = B.block(), B.block()
        B.switch_discr(b0, r, RES, RES_V, tys[0], {"Ok": ok_b, "Err": err_b})
        x = B.local(T)
        e = B.local(E)
        B.payload(ok_b, x, r, "Ok")
        B.payload(err_b, e, r, "Err")
        rt = _ret_ty(fx, cal)
        if m == "and_then":
            B.call_fnlike(ok_b, cal, [{"mv": {"l": x}}], [T], dest, dty, end)
            B.wrap(err_b, dest, RES, "Err", {"mv": {"l": e}})
            B.goto(err_b, end)
        elif m == "map":
            y = B.local(rt)
            k = B.block()
            B.call_fnlike(ok_b, cal, [{"mv": {"l": x}}], [T], y, rt, k)
            B.wrap(k, dest, RES, "Ok", {"mv": {"l": y}})
            B.goto(k, end)
            B.wrap(err_b, dest, RES, "Err", {"mv": {"l": e}})
            B.goto(err_b, end)
        elif m == "map_err":
            B.wrap(ok_b, dest, RES, "Ok", {"mv": {"l": x}})
            B.goto(ok_b, end)
            y = B.local(rt)
            k = B.block()
            B.call_fnlike(err_b, cal, [{"mv": {"l": e}}], [E], y, rt, k)
            B.wrap(k, dest, RES, "Err", {"mv": {"l": y}})
            B.goto(k, end)
        elif m == "or_else":
            B.wrap(ok_b, dest, RES, "Ok", {"mv": {"l": x}})
            B.goto(ok_b, end)
            B.call_fnlike(err_b, cal, [{"mv": {"l": e}}], [E], dest, dty, end)
        elif m == "unwrap_or_else":
            B.stmt(ok_b, dest, {"k": "use", "op": {"mv": {"l": x}}})
            B.goto(ok_b, end)
            B.call_fnlike(err_b, cal, [{"mv": {"l": e}}], [E], dest, dty, end)
        elif m == "is_ok_and":
            B.call_fnlike(ok_b, cal, [{"mv": {"l": x}}], [T], dest, "bool", end)
            B.const_bool(err_b, dest, False)
            B.goto(err_b, end)
        elif m == "is_err_and":
            B.const_bool(ok_b, dest, False)
            B.goto(ok_b, end)
            B.call_fnlike(err_b, cal, [{"mv": {"l": e}}], [E], dest, "bool", end)
        elif m == "map_or":
            B.call_fnlike(ok_b, cal, [{"mv": {"l": x}}], [T], dest, dty, end)
            B.stmt(err_b, dest, {"k": "use", "op": args[1]})
            B.goto(err_b, end)
        blocks[bi]["term"] = {"k": "goto", "target": b0, "span": t["span"], "expanded": o}
        return True

    # ---------------- Option ----------------
    if o.startswith(O) and o[len(O):] in ("map", "and_then", "or_else", "ok_or_else", "unwrap_or_else", "is_some_and",
                                           "is_none_or", "map_or"):
        m = o[len(O):]
        ci = 2 if m == "map_or" else 1
        if len(args) <= ci:
            return False
        cal = _callee_of(fx, fn, t, ci)
        st = start("opt")
        if cal is None or st is None:
            return False
        r, (T,), b0 = st
        some_b, none_b = B.block(), B.block()
        B.switch_discr(b0, r, OPT, OPT_V, tys[0], {"Some": some_b, "None": none_b})
        x = B.local(T)
        B.payload(some_b, x, r, "Some")
        rt = _ret_ty(fx, cal)
        if m == "map":
            y = B.local(rt)
            k = B.block()
            B.call_fnlike(some_b, cal, [{"mv": {"l": x}}], [T], y, rt, k)
            B.wrap(k, dest, OPT, "Some", {"mv": {"l": y}})
            B.goto(k, end)
            B.wrap(none_b, dest, OPT, "None", None)
            B.goto(none_b, end)
        elif m == "and_then":
            B.call_fnlike(some_b, cal, [{"mv": {"l": x}}], [T], dest, dty, end)
            B.wrap(none_b, dest, OPT, "None", None)
            B.goto(none_b, end)
        elif m == "or_else":
            B.wrap(some_b, dest, OPT, "Some", {"mv": {"l": x}})
            B.goto(some_b, end)
            B.call_fnlike(none_b, cal, [], [], dest, dty, end)
        elif m == "ok_or_else":
            B.wrap(some_b, dest, RES, "Ok", {"mv": {"l": x}})
            B.goto(some_b, end)
            y = B.local(rt)
            k = B.block()
            B.call_fnlike(none_b, cal, [], [], y, rt, k)
            B.wrap(k, dest, RES, "Err", {"mv": {"l": y}})
            B.goto(k, end)
        elif m == "unwrap_or_else":
            B.stmt(some_b, dest, {"k": "use", "op": {"mv": {"l": x}}})
            B.goto(some_b, end)
            B.call_fnlike(none_b, cal, [], [], dest, dty, end)
        elif m in ("is_some_and", "is_none_or"):
            B.call_fnlike(some_b, cal, [{"mv": {"l": x}}], [T], dest, "bool", end)
            B.const_bool(none_b, dest, m == "is_none_or")
            B.goto(none_b, end)
        elif m == "map_or":
            B.call_fnlike(some_b, cal, [{"mv": {"l": x}}], [T], dest, dty, end)
            B.stmt(none_b, dest, {"k": "use", "op": args[1]})
            B.goto(none_b, end)
        blocks[bi]["term"] = {"k": "goto", "target": b0, "span": t["span"], "expanded": o}
        return True

    # ---------------- closure-less combinators that only re-wrap a decision ----------------
    if o == "core::bool::<impl bool>::then_some" and len(args) == 2:
        rl = recv_local()
        if rl is None:
            return False
        l, pre = rl
        b0 = B.block()
        if pre is not None:
            B.stmt(b0, l, pre)
        tb, fb = B.block(), B.block()
        B.switch_bool(b0, l, tb, fb)
        B.wrap(tb, dest, OPT, "Some", args[1])
        B.goto(tb, end)
        B.wrap(fb, dest, OPT, "None", None)
        B.goto(fb, end)
        blocks[bi]["term"] = {"k": "goto", "target": b0, "span": t["span"], "expanded": o}
        return True
    if o == O + "ok_or" and len(args) == 2:
        st = start("opt")
        if st is None:
            return False
        r, (T,), b0 = st
        some_b, none_b = B.block(), B.block()
        B.switch_discr(b0, r, OPT, OPT_V, tys[0], {"Some": some_b, "None": none_b})
        x = B.local(T)
        B.payload(some_b, x, r, "Some")
        B.wrap(some_b, dest, RES, "Ok", {"mv": {"l": x}})
        B.goto(some_b, end)
        B.wrap(none_b, dest, RES, "Err", args[1])
        B.goto(none_b, end)
        blocks[bi]["term"] = {"k": "goto", "target": b0, "span": t["span"], "expanded": o}
        return True

    if o in ("core::option::Option::<core::result::Result<T, E>>::transpose",
             "core::result::Result::<core::option::Option<T>, E>::transpose") and len(args) == 1:
        rl = recv_local()
        if rl is None:
            return False
        l, pre = rl
        b0 = B.block()
        if pre is not None:
            B.stmt(b0, l, pre)
        h, ga = split_generics(tys[0] if tys else "")
        if h == OPT and len(ga) == 1 and split_generics(ga[0])[0] == RES:
            T_, E_ = (split_generics(ga[0])[1] + ["?", "?"])[:2]
            some_b, none_b = B.block(), B.block()
            B.switch_discr(b0, l, OPT, OPT_V, tys[0], {"Some": some_b, "None": none_b})
            n_ = B.local("%s<%s>" % (OPT, T_))
            B.wrap(none_b, n_, OPT, "None", None)
            B.wrap(none_b, dest, RES, "Ok", {"mv": {"l": n_}})
            B.goto(none_b, end)
            inner = B.local(ga[0])
            B.payload(some_b, inner, l, "Some")
            ok_b, err_b = B.block(), B.block()
            B.switch_discr(some_b, inner, RES, RES_V, ga[0], {"Ok": ok_b, "Err": err_b})
            x, e = B.local(T_), B.local(E_)
            B.payload(ok_b, x, inner, "Ok")
            s_ = B.local("%s<%s>" % (OPT, T_))
            B.wrap(ok_b, s_, OPT, "Some", {"mv": {"l": x}})
            B.wrap(ok_b, dest, RES, "Ok", {"mv": {"l": s_}})
            B.goto(ok_b, end)
            B.payload(err_b, e, inner, "Err")
            B.wrap(err_b, dest, RES, "Err", {"mv": {"l": e}})
            B.goto(err_b, end)
        elif h == RES and len(ga) == 2 and split_generics(ga[0])[0] == OPT:
            T_ = (split_generics(ga[0])[1] + ["?"])[0]
            E_ = ga[1]
            ok_b, err_b = B.block(), B.block()
            B.switch_discr(b0, l, RES, RES_V, tys[0], {"Ok": ok_b, "Err": err_b})
            e = B.local(E_)
            B.payload(err_b, e, l, "Err")
            r_ = B.local("%s<%s, %s>" % (RES, T_, E_))
            B.wrap(err_b, r_, RES, "Err", {"mv": {"l": e}})
            B.wrap(err_b, dest, OPT, "Some", {"mv": {"l": r_}})
            B.goto(err_b, end)
            inner = B.local(ga[0])
            B.payload(ok_b, inner, l, "Ok")
            some_b, none_b = B.block(), B.block()
            B.switch_discr(ok_b, inner, OPT, OPT_V, ga[0], {"Some": some_b, "None": none_b})
            x = B.local(T_)
            B.payload(some_b, x, inner, "Some")
            r2 = B.local("%s<%s, %s>" % (RES, T_, E_))
            B.wrap(some_b, r2, RES, "Ok", {"mv": {"l": x}})
            B.wrap(some_b, dest, OPT, "Some", {"mv": {"l": r2}})
            B.goto(some_b, end)
            B.wrap(none_b, dest, OPT, "None", None)
            B.goto(none_b, end)
        else:
            return False
        blocks[bi]["term"] = {"k": "goto", "target": b0, "span": t["span"], "expanded": o}
        return True

    # ---------------- two-closure and by-reference Option/Result combinators ----------------
    if o in (O + "map_or_else", R + "map_or_else") and len(args) == 3:
        is_res = o.startswith(R)
        dflt = _callee_of(fx, fn, t, 1)
        cal = _callee_of(fx, fn, t, 2)
        st = start("res" if is_res else "opt")
        if cal is None or dflt is None or st is None:
            return False
        r, ga, b0 = st
        if is_res:
            hit_b, miss_b = B.block(), B.block()
            B.switch_discr(b0, r, RES, RES_V, tys[0], {"Ok": hit_b, "Err": miss_b})
            x, e = B.local(ga[0]), B.local(ga[1])
            B.payload(hit_b, x, r, "Ok")
            B.payload(miss_b, e, r, "Err")
            B.call_fnlike(hit_b, cal, [{"mv": {"l": x}}], [ga[0]], dest, dty, end)
            B.call_fnlike(miss_b, dflt, [{"mv": {"l": e}}], [ga[1]], dest, dty, end)
        else:
            hit_b, miss_b = B.block(), B.block()
            B.switch_discr(b0, r, OPT, OPT_V, tys[0], {"Some": hit_b, "None": miss_b})
            x = B.local(ga[0])
            B.payload(hit_b, x, r, "Some")
            B.call_fnlike(hit_b, cal, [{"mv": {"l": x}}], [ga[0]], dest, dty, end)
            B.call_fnlike(miss_b, dflt, [], [], dest, dty, end)
        blocks[bi]["term"] = {"k": "goto", "target": b0, "span": t["span"], "expanded": o}
        return True
    if o in (O + "filter", O + "inspect") and len(args) == 2:
        m = o[len(O):]
        cal = _callee_of(fx, fn, t, 1)
        st = start("opt")
        if cal is None or st is None:
            return False
        r, (T,), b0 = st
        some_b, none_b = B.block(), B.block()
        B.switch_discr(b0, r, OPT, OPT_V, tys[0], {"Some": some_b, "None": none_b})
        ref = B.local("&" + T)
        B.stmt(some_b, ref, {"k": "ref", "mut": False, "pl": {"l": r, "p": [{"dc": "Some"}, {"f": 0}]}})
        if m == "filter":
            bb = B.local("bool")
            k = B.block()
            B.call_fnlike(some_b, cal, [{"mv": {"l": ref}}], ["&" + T], bb, "bool", k)
            keep, drop = B.block(), B.block()
            B.switch_bool(k, bb, keep, drop)
            B.stmt(keep, dest, {"k": "use", "op": {"mv": {"l": r}}})
            B.goto(keep, end)
            B.wrap(drop, dest, OPT, "None", None)
            B.goto(drop, end)
        else:
            u = B.local("()")
            k = B.block()
            B.call_fnlike(some_b, cal, [{"mv": {"l": ref}}], ["&" + T], u, "()", k)
            B.stmt(k, dest, {"k": "use", "op": {"mv": {"l": r}}})
            B.goto(k, end)
        B.stmt(none_b, dest, {"k": "use", "op": {"mv": {"l": r}}})
        B.goto(none_b, end)
        blocks[bi]["term"] = {"k": "goto", "target": b0, "span": t["span"], "expanded": o}
        return True

    # ---------------- bool::then ----------------
    if o == "core::bool::<impl bool>::then" and len(args) == 2:
        cal = _callee_of(fx, fn, t, 1)
        rl = recv_local()
        if cal is None or rl is None:
            return False
        l, pre = rl
        b0 = B.block()
        if pre is not None:
            B.stmt(b0, l, pre)
        tb, fb = B.block(), B.block()
        B.switch_bool(b0, l, tb, fb)
        rt = _ret_ty(fx, cal)
        y = B.local(rt)
        k = B.block()
        B.call_fnlike(tb, cal, [], [], y, rt, k)
        B.wrap(k, dest, OPT, "Some", {"mv": {"l": y}})
        B.goto(k, end)
        B.wrap(fb, dest, OPT, "None", None)
        B.goto(fb, end)
        blocks[bi]["term"] = {"k": "goto", "target": b0, "span": t["span"], "expanded": o}
        return True

    # ---------------- Iterator consumers ----------------
    if o in (I + "fold", I + "try_fold") and len(args) == 3:
        m = o[len(I):]
        cal = _callee_of(fx, fn, t, 2)
        a0 = args[0]
        pl = a0.get("mv") or a0.get("cp")
        if cal is None or pl is None:
            return False
        ity = tys[0] if tys else "?"
        by_ref = ity.startswith("&mut ")
        b0 = B.block()
        if by_ref:
            itref = B.local(ity)
            B.stmt(b0, itref, {"k": "use", "op": a0})
            base_ty = ity[5:]
        else:
            it = B.local(ity)
            B.stmt(b0, it, {"k": "use", "op": a0})
            base_ty = ity
        aty = tys[1] if len(tys) > 1 else "?"
        acc = B.local(aty)
        B.stmt(b0, acc, {"k": "use", "op": args[1]})
        item = f.get("iter_item") or t.get("iter_item") or "?"
        head = B.block()
        B.goto(b0, head)
        nxt = B.local("%s<%s>" % (OPT, item))
        h2 = B.block()
        if by_ref:
            r = B.local(ity)
            B.stmt(head, r, {"k": "ref", "mut": True, "pl": {"l": itref, "p": ["deref"]}})
        else:
            r = B.local("&mut " + ity)
            B.stmt(head, r, {"k": "ref", "mut": True, "pl": {"l": it}})
        B.blocks[head]["term"] = {
            "k": "call", "span": t["span"],
            "fn": {"orig": NEXT, "path": "<%s as core::iter::traits::iterator::Iterator>::next" % base_ty, "kind": "item",
                   "local": False, "trait": "core::iter::traits::iterator::Iterator", "iter_item": item},
            "args": [{"mv": {"l": r}}], "arg_tys": ["&mut " + base_ty], "dest": {"l": nxt},
            "dest_ty": "%s<%s>" % (OPT, item), "target": h2, "iter_item": item}
        body, done = B.block(), B.block()
        B.switch_discr(h2, nxt, OPT, OPT_V, "%s<%s>" % (OPT, item), {"Some": body, "None": done})
        x = B.local(item)
        B.payload(body, x, nxt, "Some")
        rt = _ret_ty(fx, cal)
        if m == "fold":
            B.call_fnlike(body, cal, [{"mv": {"l": acc}}, {"mv": {"l": x}}], [aty, item], acc, aty, head)
            B.stmt(done, dest, {"k": "use", "op": {"mv": {"l": acc}}})
            B.goto(done, end)
        else:
            rr = B.local(rt)
            k = B.block()
            B.call_fnlike(body, cal, [{"mv": {"l": acc}}, {"mv": {"l": x}}], [aty, item], rr, rt, k)
            rh, _ga = split_generics(rt)
            adt, vs, okv, errv = (RES, RES_V, "Ok", "Err") if rh == RES else ((OPT, OPT_V, "Some", "None") if rh == OPT else (CF, CF_V, "Continue", "Break"))
            cont, brk = B.block(), B.block()
            B.switch_discr(k, rr, adt, vs, rt, {okv: cont, errv: brk})
            B.payload(cont, acc, rr, okv)
            B.goto(cont, head)
            B.stmt(brk, dest, {"k": "use", "op": {"mv": {"l": rr}}})
            B.goto(brk, end)
            B.wrap(done, dest, adt, okv, {"mv": {"l": acc}})
            B.goto(done, end)
        blocks[bi]["term"] = {"k": "goto", "target": b0, "span": t["span"], "expanded": o}
        return True

    if o in (I + "for_each", I + "try_for_each", I + "any", I + "all", I + "find_map") and len(args) == 2:
        m = o[len(I):]
        cal = _callee_of(fx, fn, t, 1)
        a0 = args[0]
        pl = a0.get("mv") or a0.get("cp")
        if cal is None or pl is None:
            return False
        ity = tys[0] if tys else "?"
        by_ref = ity.startswith("&mut ")
        b0 = B.block()
        if by_ref:
            # `iter.by_ref().any(..)` / `(&mut it).any(..)`: the receiver already is the `&mut` we need
            itref = B.local(ity)
            B.stmt(b0, itref, {"k": "use", "op": a0})
            base_ty = ity[5:]
        else:
            it = B.local(ity)
            B.stmt(b0, it, {"k": "use", "op": a0})
            base_ty = ity
        item = f.get("iter_item") or t.get("iter_item") or "?"
        head = B.block()
        B.goto(b0, head)
        nxt = B.local("%s<%s>" % (OPT, item))
        h2 = B.block()
        if by_ref:
            r = B.local(ity)
            B.stmt(head, r, {"k": "ref", "mut": True, "pl": {"l": itref, "p": ["deref"]}})
        else:
            r = B.local("&mut " + ity)
            B.stmt(head, r, {"k": "ref", "mut": True, "pl": {"l": it}})
        B.blocks[head]["term"] = {
            "k": "call", "span": t["span"],
            "fn": {"orig": NEXT, "path": "<%s as core::iter::traits::iterator::Iterator>::next" % base_ty, "kind": "item",
                   "local": False, "trait": "core::iter::traits::iterator::Iterator", "iter_item": item},
            "args": [{"mv": {"l": r}}], "arg_tys": ["&mut " + base_ty], "dest": {"l": nxt},
            "dest_ty": "%s<%s>" % (OPT, item), "target": h2, "iter_item": item}
        body, done = B.block(), B.block()
        B.switch_discr(h2, nxt, OPT, OPT_V, "%s<%s>" % (OPT, item), {"Some": body, "None": done})
        x = B.local(item)
        B.payload(body, x, nxt, "Some")
        rt = _ret_ty(fx, cal)
        if m == "for_each":
            u = B.local("()")
            B.call_fnlike(body, cal, [{"mv": {"l": x}}], [item], u, "()", head)
            B.unit(done, dest)
            B.goto(done, end)
        elif m == "try_for_each":
            rr = B.local(rt)
            k = B.block()
            B.call_fnlike(body, cal, [{"mv": {"l": x}}], [item], rr, rt, k)
            rh, _ga = split_generics(rt)
            if rh == RES:
                brk = B.block()
                B.switch_discr(k, rr, RES, RES_V, rt, {"Ok": head, "Err": brk})
                B.stmt(brk, dest, {"k": "use", "op": {"mv": {"l": rr}}})
                B.goto(brk, end)
                uu = B.local("()")
                B.unit(done, uu)
                B.wrap(done, dest, RES, "Ok", {"mv": {"l": uu}})
            elif rh == OPT:
                brk = B.block()
                B.switch_discr(k, rr, OPT, OPT_V, rt, {"Some": head, "None": brk})
                B.stmt(brk, dest, {"k": "use", "op": {"mv": {"l": rr}}})
                B.goto(brk, end)
                uu = B.local("()")
                B.unit(done, uu)
                B.wrap(done, dest, OPT, "Some", {"mv": {"l": uu}})
            else:
                brk = B.block()
                B.switch_discr(k, rr, CF, CF_V, rt, {"Continue": head, "Break": brk})
                B.stmt(brk, dest, {"k": "use", "op": {"mv": {"l": rr}}})
                B.goto(brk, end)
                uu = B.local("()")
                B.unit(done, uu)
                B.wrap(done, dest, CF, "Continue", {"mv": {"l": uu}})
            B.goto(done, end)
        elif m in ("any", "all"):
            bb = B.local("bool")
            k = B.block()
            B.call_fnlike(body, cal, [{"mv": {"l": x}}], [item], bb, "bool", k)
            hit = B.block()
            if m == "any":
                B.switch_bool(k, bb, hit, head)
            else:
                B.switch_bool(k, bb, head, hit)
            B.const_bool(hit, dest, m == "any")
            B.goto(hit, end)
            B.const_bool(done, dest, m != "any")
            B.goto(done, end)
        elif m == "find_map":
            y = B.local(rt)
            k = B.block()
            B.call_fnlike(body, cal, [{"mv": {"l": x}}], [item], y, rt, k)
            hit = B.block()
            B.switch_discr(k, y, OPT, OPT_V, rt, {"Some": hit, "None": head})
            B.stmt(hit, dest, {"k": "use", "op": {"mv": {"l": y}}})
            B.goto(hit, end)
            B.wrap(done, dest, OPT, "None", None)
            B.goto(done, end)
        blocks[bi]["term"] = {"k": "goto", "target": b0, "span": t["span"], "expanded": o}
        return True
    return False


_cache = {}


def _expand_nocache(fx, fn):
    """Expansion of an already inlined view (second round: combinators whose callable became known only after the
    generic helper around them was inlined)."""
    blocks = copy.deepcopy(fn.blocks)
    locals_ = list(fn.locals)
    tmp = facts.Fn(dict(fn.raw, blocks=blocks, locals=locals_), fn.crate)
    tmp.fx = fx
    tmp.inlined_from = fn.inlined_from
    n = 0
    for bi in range(len(fn.blocks)):
        b = blocks[bi]
        t = b["term"]
        if t["k"] != "call" or b.get("cleanup"):
            continue
        o = (t.get("fn") or {}).get("orig") or ""
        if not o.startswith((R, O, I, "core::bool::<impl bool>::", "core::option::Option::<core::result::Result",
                             "core::result::Result::<core::option::Option", "anyhow::Context::")):
            continue
        try:
            if _expand_one(fx, tmp, bi, t, blocks, locals_):
                n += 1
        except (KeyError, IndexError, ValueError, TypeError):
            continue
    if not n:
        return fn
    raw = dict(fn.raw)
    raw["blocks"] = blocks
    raw["locals"] = locals_
    out = facts.Fn(raw, fn.crate)
    out.fx = fx
    out.inlined_from = fn.inlined_from
    return out


def expanded(fx, fn):
    key = (id(fx), fn.path)
    if getattr(fn, "inlined_from", None) is not None:
        return _expand_nocache(fx, fn)
    if key in _cache:
        return _cache[key]
    hit = False
    for b in fn.blocks:
        t = b["term"]
        if t["k"] == "call" and not b.get("cleanup"):
            o = (t.get("fn") or {}).get("orig") or ""
            if o.startswith((R, O, I, "core::bool::<impl bool>::", "core::option::Option::<core::result::Result",
                             "core::result::Result::<core::option::Option", "anyhow::Context::")):
                hit = True
                break
    if not hit:
        _cache[key] = fn
        return fn
    blocks = copy.deepcopy(fn.blocks)
    locals_ = list(fn.locals)
    n = 0
    bi = 0
    # newly created blocks may themselves contain expandable calls only through later inlining; one pass suffices
    for bi in range(len(fn.blocks)):
        b = blocks[bi]
        t = b["term"]
        if t["k"] != "call" or b.get("cleanup"):
            continue
        try:
            if _expand_one(fx, fn, bi, t, blocks, locals_):
                n += 1
        except (KeyError, IndexError, ValueError, TypeError):
            continue
    if not n:
        _cache[key] = fn
        return fn
    raw = dict(fn.raw)
    raw["blocks"] = blocks
    raw["locals"] = locals_
    out = facts.Fn(raw, fn.crate)
    out.fx = fx
    _cache[key] = out
    return out
