"""R-PROBE: error-blind / link-following filesystem probes.

`Path::{exists,is_dir,is_file,is_symlink}` turn a failed stat into `false`.
Every such call in product code must be tabled (tables/probes.json) with the
decision it feeds and why a swallowed error cannot end in exit status 0 with a
wrong destination; an untabled call is reported ("unclassified probe").  This
is a who-may-call rule and is meant to fire on new uses.
"""
import json
import os

from cfg import callee_orig
from engine import Ob, mkkey, VERIF
from r_err import in_scope_fn, span_excluded

ERROR_BLIND = {
    "std::path::Path::exists", "std::path::Path::is_dir", "std::path::Path::is_file",
    "std::path::Path::is_symlink", "std::fs::DirEntry::file_type.ok",
}
LINK_FOLLOWING = {
    "std::path::Path::exists", "std::path::Path::is_dir", "std::path::Path::is_file",
    "std::path::Path::metadata", "std::fs::metadata", "std::path::Path::try_exists", "std::fs::exists",
}


def load_table():
    with open(os.path.join(VERIF, "tables", "probes.json")) as f:
        j = json.load(f)
    return {e["key"]: e for e in j["probes"]}


def probe_sites(fx, callees, crates=None):
    counters = {}
    for path in sorted(fx.fns):
        f = fx.fns[path]
        if crates and f.crate not in crates:
            continue
        if not in_scope_fn(fx, f):
            continue
        for bi, t in f.calls():
            o = callee_orig(t)
            if o not in callees or span_excluded(t["span"]):
                continue
            k = (f.path, o)
            n = counters.get(k, 0)
            counters[k] = n + 1
            yield f, bi, t, o, n


def run_swallow(fx, crates=None, cfgname="A"):
    """Error-blind probes are acceptable only in the front end's validation prefix (before the thread that runs
    the copy is spawned): there a swallowed stat error can only add or skip a rejection -- nothing has been
    created, the walker re-decides the mapping with fallible probes and CopyHandle::new refuses an inode-identical
    destination.  Anywhere else (libxcp, libfs, after the copy has started) they are reported."""
    import views
    from cfg import cfg_of
    import q
    from names import MAIN, SPAWN
    obs = []
    allowed_sites = set()       # (origin fn, file, line) of probes lying in main's prefix
    mv = views.main_view(fx) if MAIN in fx.fns else None
    if mv is not None:
        cfg = cfg_of(mv)
        sp = [bi for bi, t in q.calls_to(mv, SPAWN)]
        for bi, t in mv.calls():
            o = callee_orig(t)
            if o in ERROR_BLIND and not span_excluded(t["span"]):
                if sp and not cfg.set_dominates(sp, bi):
                    allowed_sites.add((t["span"]["file"], t["span"]["line"], o))
    for f, bi, t, o, n in probe_sites(fx, ERROR_BLIND, crates):
        key = mkkey("R-PROBE", f.path, o, n)
        loc = "%s:%d" % (t["span"]["file"], t["span"]["line"])
        ok = (t["span"]["file"], t["span"]["line"], o) in allowed_sites and f.crate == "xcp"
        if ok:
            obs.append(Ob("R-PROBE", key, True, loc, f.path,
                          "error-blind probe `%s` lies in the validation prefix of main (nothing created yet; a swallowed "
                          "error only adds/skips a rejection that the walker re-decides)" % o.split("::")[-1], cfg=cfgname))
        else:
            obs.append(Ob("R-PROBE", key, False, loc, f.path,
                          "error-blind probe `%s` outside the front end's validation prefix: a failed stat is read as "
                          "'absent/not a directory' and silently changes the decision it feeds" % o.split("::")[-1],
                          dict(callee=o, note="use a fallible (l)stat and propagate"), cfg=cfgname))
    return obs
