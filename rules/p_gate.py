"""C03 (sources never modified), C08 (--no-clobber), C09 (numbered backups),
C13 (--dereference): gates, dominance and who-may-call rules."""
from cfg import cfg_of, Prov, op_local, op_place, defuse, place_fields, callee_orig
from engine import Ob, mkkey, anchor_ob
import q
import r_order as ro
import r_err
from names import *


# --------------------------------------------------------------------------
# shared helpers
# --------------------------------------------------------------------------

def driver_reach(fx):
    """Workspace functions reachable from the two CopyDriver::copy entry points (incl. closures,
    thread bodies and Drop impls run by drops inside them)."""
    cg = q.callgraph(fx)
    out = set()
    for e in ENTRY_POINTS:
        if e in fx.fns:
            out |= cg.local_reach(e)
    # Drop impls of workspace types are run by drops anywhere in the reachable code
    for f in list(out):
        fn = fx.fns.get(f)
        if fn is None:
            continue
        for b in fn.blocks:
            t = b["term"]
            if t["k"] == "drop":
                for d in t.get("dtors", []):
                    for i in fx.impls:
                        if i["trait"] == "core::ops::drop::Drop" and i["self_ty"] == d:
                            dp = "<%s as core::ops::drop::Drop>::drop" % d
                            if dp in fx.fns:
                                out |= cg.local_reach(dp)
    return out


def variant_edges(fn, adt, field):
    """Switches on the discriminant of a place whose last named field is adt.field:
    [(switch block, {variant: target}, otherwise)]"""
    du = defuse(fn)
    out = []
    for bi, b in enumerate(fn.blocks):
        if b.get("cleanup"):
            continue
        for s in b["stmts"]:
            rv = s["rv"]
            if rv["k"] != "discr":
                continue
            fl = place_fields(rv["pl"])
            if not fl or fl[-1] != (adt, field):
                continue
            dl = s["lhs"]["l"]
            vmap = {v["val"]: v["name"] for v in rv.get("variants", [])}
            for site, how in du.uses.get(dl, []):
                if how == "switch" and site.is_term:
                    t = site.node
                    m = {}
                    for v, tb in t["targets"]:
                        m[vmap.get(str(v), str(v))] = tb
                    missing = [n for n in vmap.values() if n not in m]
                    for n in missing:
                        m[n] = t["otherwise"]
                    out.append((site.bb, m, t["otherwise"]))
    return out


def edge_region(fn, u, v):
    """Blocks reachable only through edge (u,v)."""
    cfg = cfg_of(fn)
    without = cfg.reach([0], blocked_edges=[(u, v)])
    return set(b for b in cfg.reach([v]) if b not in without)


def identity_test_fns(fx):
    """Workspace functions that compare st_ino with st_ino and st_dev with st_dev (inode identity)."""
    INO = "std::os::unix::fs::MetadataExt::ino"
    DEV = "std::os::unix::fs::MetadataExt::dev"
    out = {}
    for f in ro.fns_in_scope(fx):
        if len(q.calls_to(f, INO)) < 2 or len(q.calls_to(f, DEV)) < 2:
            continue
        # both accessor results must meet in an == comparison
        pv = Prov(f, through_bin=False)
        okd = {INO: False, DEV: False}
        for bi, b in enumerate(f.blocks):
            if b.get("cleanup"):
                continue
            for s in b["stmts"]:
                rv = s["rv"]
                if rv["k"] == "bin" and rv["op"] in ("Eq", "Ne"):
                    srcs = []
                    for o in (rv["a"], rv["b"]):
                        l = op_local(o)
                        if l is None:
                            srcs.append(set())
                            continue
                        atoms, _f, _s = pv.origins(l)
                        srcs.append(set(a.what for a in atoms if a.kind == "call"))
                    for acc in (INO, DEV):
                        if acc in srcs[0] and acc in srcs[1]:
                            okd[acc] = True
        if okd[INO] and okd[DEV]:
            out[f.path] = f
    return out


# --------------------------------------------------------------------------
# C03
# --------------------------------------------------------------------------

def alias_gate(fx):
    """(b) every call that truncates, renames or removes what the destination path names, and that a worker role
    can reach, is control-dependent on an inode-identity test between source and destination being false, and
    the 'same' outcome fails.  Evaluated on the workers' inlined views, so the test may live in any helper."""
    import views, p_role
    obs = []
    ids = identity_test_fns(fx)
    DESTR = {FILE_CREATE, RENAME, REMOVE_FILE, "std::fs::remove_dir", "std::fs::remove_dir_all",
             "std::fs::OpenOptions::open", "std::fs::File::create_new"}
    covered = set()
    sites = 0
    R_ = p_role.roles(fx)
    for lab, v in views.workers(fx):
        n = 0
        for bi, t in q.calls_to(v, DESTR):
            sid = views.site(v, bi)
            covered.add(sid[:3])
            sites += 1
            nm = q.names(t)[0]
            key = mkkey("R-ORDER", lab, nm, n, "alias-gate")
            n += 1
            good = None
            for idf in ids:
                ok, w = q.gated(v, bi, "call", idf, False, weak=True)
                if ok:
                    good = idf
                    break
            obs.append(Ob("R-ORDER", key, good is not None, q.loc_of(t), lab,
                          "%s of the destination (%s) is %s" % (nm.split("::")[-1], q.loc_of(t),
                                                                 ("control-dependent on %s(..) == false" % good) if good else
                                                                 "not guarded by an inode-identity test (st_dev/st_ino of source vs destination)"),
                          None if good else dict(identity_tests=sorted(ids), block="bb%d" % bi)))
            if good:
                for (u, v2) in ro.edge_target(v, "call", good, True):
                    obs.append(ro.region_must_fail(fx, v, v2, "R-ORDER", mkkey("R-ORDER", lab, good, n, "same-file-fails"),
                                                   "source == destination outcome", loc=q.loc_of(t)))
    # the identity tests compare a source-side value with a destination-side value (roles, on the original functions)
    k = 0
    for f in ro.fns_in_scope(fx, crates=("libxcp",)):
        for idf in ids:
            for (cb, ct) in q.calls_to(f, idf):
                rs = [R_.operand_role(f, a) for a in ct["args"]]
                # (a wrapper type used for both sides has a MIXED field: only a *determinate* same-side pair is wrong)
                det = [r_ for r_ in rs if r_ in (p_role.SRC, p_role.DST)]
                okr = not (len(det) >= 2 and len(set(det)) == 1)
                obs.append(Ob("R-ROLE", mkkey("R-ROLE", f.path, idf, k, "identity-args"), okr, q.loc_of(ct), f.path,
                              "identity test compares a %s value with a %s value" % tuple((rs + ["?", "?"])[:2]),
                              None if okr else dict(roles=rs)))
                k += 1
    # destructive calls reachable from the drivers but not part of any worker view (other roles, closures)
    reach = driver_reach(fx)
    m = 0
    for f in ro.fns_in_scope(fx, crates=("libxcp", "libfs")):
        for bi, t in q.calls_to(f, DESTR):
            if (f.path, t["span"]["file"], t["span"]["line"]) in covered:
                continue
            nm = q.names(t)[0]
            key = mkkey("R-ORDER", f.path, nm, m, "alias-gate")
            m += 1
            if f.path not in reach and f.root not in reach:
                obs.append(Ob("R-ORDER", key, True, q.loc_of(t), f.path,
                              "%s in %s is not reachable from either driver (out-of-graph instance, listed only)" % (nm, f.path),
                              trivial=True))
                continue
            sites += 1
            good, host, hostbi = _guarding_identity_test(fx, f, bi, ids, set())
            obs.append(Ob("R-ORDER", key, good is not None, q.loc_of(t), f.path,
                          "%s of the destination outside the workers' per-operation code is %s" % (
                              nm.split("::")[-1], "guarded by %s" % good if good else "not guarded by an inode-identity test"),
                          None if good else dict(block="bb%d" % bi)))
    if sites == 0:
        obs.append(anchor_ob("R-ORDER", "no truncating open of the destination reachable from the drivers"))
    return obs


def _guarding_identity_test(fx, f, bi, ids, seen):
    """The identity-test function on whose `false` outcome block bi of f is control-dependent; if f is a private
    helper, every one of its call sites must be guarded in the caller instead. Returns (test, host fn, block)."""
    for idf in ids:
        ok, w = q.gated(f, bi, "call", idf, False, weak=True)
        if ok:
            return idf, f, bi
    if f.path in seen or f.raw.get("exported") or f.raw.get("reachable"):
        return None, None, None
    cg = q.callgraph(fx)
    res = None
    n = 0
    for c in sorted(cg.callers.get(f.path, ())):
        g = fx.fns.get(c)
        if g is None:
            continue
        for b2, t2 in g.calls():
            if q.names(t2)[1] == f.path or f.path in (t2["fn"].get("fnvals") or []):
                n += 1
                r = _guarding_identity_test(fx, g, b2, ids, seen | {f.path})
                if r[0] is None:
                    return None, None, None
                res = r
    return res if (n and res) else (None, None, None)


def destructive_confined(fx):
    """(c) destructive primitives occur only in their semantic context: the truncating open and the backup rename
    in the Copy arm of a worker, removal of an existing entry in the Special arm, symlink creation in the Link arm,
    directory creation in the walker's Dir arm, mknod/ftruncate inside libfs's copy_node/allocate_file."""
    import views, p_kinds
    obs = []
    allowed = {}       # primitive -> set of (origin, file, line)
    ARM = {FILE_CREATE: "Copy", RENAME: "Copy", REMOVE_FILE: "Special", SYMLINK: "Link"}
    for lab, v in views.workers(fx):
        f, regs = p_kinds.op_regions(fx, v)
        for prim, arm in ARM.items():
            for bi, t in q.calls_to(v, prim):
                if bi in regs.get(arm, ()):
                    allowed.setdefault(prim, set()).add(views.site(v, bi)[:3])
    for wv in views.walker_views(fx):
        sw = p_kinds.type_variant_switches(wv, p_kinds.FILETYPE)
        if sw:
            sb, m = sw[0]
            if "Dir" in m:
                region = edge_region(wv, sb, m["Dir"]) | {m["Dir"]}
                for bi, t in q.calls_to(wv, CREATE_DIR_ALL):
                    if bi in region:
                        allowed.setdefault(CREATE_DIR_ALL, set()).add(views.site(wv, bi)[:3])
    LIBFS_HOSTS = {MKNODAT: {"libfs::linux::copy_node"}, FTRUNCATE: {"libfs::common::allocate_file"},
                   FILE_CREATE: {"libfs::common::copy_file"}}
    n = 0
    nsites = 0
    for f in ro.fns_in_scope(fx, crates=("libxcp", "libfs", "xcp")):
        for bi, t in f.calls():
            if q.span_excluded(t["span"]):
                continue
            prim = q.names(t)[0]
            if prim not in DESTRUCTIVE:
                continue
            nsites += 1
            sid = (f.path, t["span"]["file"], t["span"]["line"])
            # (a closure is part of the function that contains it: `retry(|| ftruncate(fd, len))`)
            host = f.root if f.is_closure else f.path
            ok = sid in allowed.get(prim, set()) or host in LIBFS_HOSTS.get(prim, set())
            obs.append(Ob("R-WHO", mkkey("R-WHO", f.path, prim, n, "context"), ok, q.loc_of(t), f.path,
                          "destructive primitive %s at %s %s" % (prim.split("::")[-1], q.loc_of(t),
                                                                 "is in its allowed context" if ok else
                                                                 "is NOT in its allowed context (%s)" % (ARM.get(prim) and "the %s arm of a worker" % ARM[prim] or "none")),
                          None if ok else dict(callee=prim, function=f.path)))
            n += 1
    obs.append(Ob("R-WHO", mkkey("R-WHO", "workspace", "destructive-scan", 0), nsites >= 6, "", "",
                  "scanned all workspace call sites for %d destructive primitives (%d sites)" % (len(DESTRUCTIVE), nsites)))
    return obs


def sources_read_only(fx):
    """(a, open mode) the only way libxcp/libfs open a path for reading is File::open; no OpenOptions chain
    (which could add write/append/truncate) exists."""
    obs = []
    n = 0
    for f in ro.fns_in_scope(fx, crates=("libxcp", "libfs")):
        for bi, t in f.calls():
            o, p = q.names(t)
            if o and o.startswith("std::fs::OpenOptions::"):
                obs.append(Ob("R-WHO", mkkey("R-WHO", f.path, o, n, "openoptions"), False, q.loc_of(t), f.path,
                              "OpenOptions used: open mode is no longer visible from the callee identity",
                              dict(callee=o)))
                n += 1
    obs.append(Ob("R-WHO", mkkey("R-WHO", "libxcp+libfs", "openoptions-scan", 0), True, "", "",
                  "no OpenOptions builder in libxcp/libfs: files are opened by File::open (read-only) or File::create"))
    return obs


def c03(ctx):
    fx = ctx.fx("A")
    import p_role
    ctx.add(p_role.role_obs(fx, which=("mutating",)))
    ctx.add(alias_gate(fx))
    ctx.add(destructive_confined(fx))
    ctx.add(sources_read_only(fx))


# --------------------------------------------------------------------------
# C08
# --------------------------------------------------------------------------

PROBES = LINK_FOLLOWING | LSTAT


def _probe_origin(fx, f, local):
    """Probe primitives (stat/lstat family) from whose result a boolean derives, through Option/Result
    adaptors and inlined helpers; plus workspace probe helpers that were not inlined."""
    atoms, fields, seen = Prov(f, table=PROBE_FLOW).origins(local)
    prims = set()
    for a in atoms:
        if a.kind == "call":
            if a.what in PROBES:
                prims.add(a.what)
            elif a.what in fx.fns:
                r = q.callgraph(fx).reach(a.what)
                prims |= set(x for x in PROBES if x in r)
    return prims


PROBE_FLOW = {
    "core::option::Option::<T>::is_some": [0], "core::option::Option::<T>::is_none": [0],
    "core::option::Option::<T>::is_some_and": [0], "core::result::Result::<T, E>::is_ok": [0],
    "core::result::Result::<T, E>::is_err": [0], "core::option::Option::<T>::map": [0],
    "core::option::Option::<T>::unwrap_or": [0], "core::option::Option::<T>::is_none_or": [0],
    "std::fs::Metadata::is_dir": [0], "std::fs::Metadata::is_file": [0], "std::fs::Metadata::file_type": [0],
    "std::fs::FileType::is_dir": [0],
}


def _exists_predicates(fx, f, region):
    """Boolean gates inside `region` that test the result of a filesystem probe:
    [(switch bb, set of probe primitives, true target, false target)]"""
    out = []
    for bi in sorted(region):
        b = f.blocks[bi]
        t = b["term"]
        if t["k"] != "switch" or t.get("op_ty") != "bool":
            continue
        l = op_local(t["op"])
        if l is None:
            continue
        prims = _probe_origin(fx, f, l)
        if not prims:
            continue
        flips = 0
        for r in q.switch_field_reads(f, bi):
            if r[0] == "call":
                flips = r[2]
        explicit = {int(v): tb for v, tb in t["targets"]}
        true_t = t["otherwise"] if 0 in explicit else explicit.get(1)
        false_t = explicit.get(0, t["otherwise"])
        out.append((bi, prims, true_t, false_t))
    return out


def _is_lstat_probe(fx, prims):
    """The existence predicate must not follow a final symlink."""
    if isinstance(prims, str):
        prims = {prims}
    follows = sorted(x for x in prims if x in LINK_FOLLOWING)
    lst = sorted(x for x in prims if x in LSTAT)
    return (bool(lst) and not follows), "derives from %s" % [x.split("::")[-1] for x in (lst + follows)]


def walker_gate(fx):
    """(a) in the walker role: when no_clobber is set and the target exists (lstat), the walker fails before any
    operation for that entry is queued or any directory is created; (b) the predicate is lstat-based.
    Evaluated on the inlined view of the role that iterates the WalkDir."""
    import views
    obs = []
    f = views.walker_view(fx)
    if f is None:
        return [anchor_ob("R-ORDER", "a thread role that iterates a WalkDir")]
    cfg = cfg_of(f)
    te = ro.edge_target(f, CONFIG, "no_clobber", True)
    if not te:
        return [anchor_ob("R-ORDER", "the walker has no branch on config.no_clobber")]
    effects = ro.performers(fx, f, {CB_SEND, CREATE_DIR_ALL}, direct_only=True)
    import p_thread as _pt
    _pt._op_types(fx)
    eff_blocks = [b for b, t, h in effects if _pt._has_op(" ".join(t.get("arg_tys", []))) or
                  q.names(t)[0] == CREATE_DIR_ALL]
    if len(eff_blocks) < 2:
        obs.append(anchor_ob("R-ORDER", "walker effects (sends of Operation + create_dir_all) found %d" % len(eff_blocks)))
    found = False
    for (u, v) in te:
        region = edge_region(f, u, v)
        preds_here = _exists_predicates(fx, f, region | {v})
        for k, (sb, prims, true_t, false_t) in enumerate(preds_here):
            found = True
            okp, whyp = _is_lstat_probe(fx, prims)
            obs.append(Ob("R-PROBE", mkkey("R-PROBE", WALKER, "exists-predicate", k, "clobber-gate-lstat"), okp,
                          q.loc_of(f.blocks[sb]["term"]), WALKER,
                          "no-clobber existence predicate %s" % whyp, None if okp else dict(predicate=sorted(prims))))
            obs.append(ro.region_must_fail(fx, f, true_t, "R-ORDER",
                                           mkkey("R-ORDER", WALKER, "no_clobber&&exists", k, "must-fail"),
                                           "no_clobber && exists", forbidden_blocks=eff_blocks,
                                           loc=q.loc_of(f.blocks[sb]["term"])))
        preds = [sb for (sb, prims, tt, ft) in preds_here]
        for n, (bi, t, h) in enumerate(effects):
            if bi not in eff_blocks or not preds:
                continue
            okp = cfg.passes_through(preds, v, [bi])
            obs.append(Ob("R-ORDER", mkkey("R-ORDER", WALKER, q.names(t)[0], n, "through-exists-test"), okp, q.loc_of(t),
                          WALKER, "with no_clobber set, %s is reachable only through the existence test: %s" % (
                              q.names(t)[0].split("::")[-1], okp),
                          None if okp else dict(effect="bb%d" % bi, predicates=preds)))
        for n, (bi, t, h) in enumerate(effects):
            if bi not in eff_blocks:
                continue
            ok = cfg.set_dominates([u_ for (u_, v_) in te], bi)
            obs.append(Ob("R-ORDER", mkkey("R-ORDER", WALKER, q.names(t)[0], n, "after-clobber-gate"), ok, q.loc_of(t),
                          WALKER, "%s is %sdominated by the no_clobber test" % (q.names(t)[0].split("::")[-1],
                                                                              "" if ok else "NOT "),
                          None if ok else dict(effect="bb%d" % bi, gate="bb%d" % u)))
    if not found:
        obs.append(anchor_ob("R-ORDER", "no existence predicate on the no_clobber==true branch of the walker"))
    return obs


def special_arm_gate(fx):
    """(a') wherever a worker removes an existing destination entry to make room for a special node, the removal
    is control-dependent on !no_clobber, the no_clobber branch fails, and the existence predicate guarding it is
    lstat-based.  Evaluated on the workers' inlined views (a shared helper is followed)."""
    import views, p_kinds
    obs = []
    WS = views.workers(fx)
    if len(WS) < 2:
        obs.append(anchor_ob("R-ORDER", "two worker roles (found %d)" % len(WS)))
    for lab, f in WS:
        fv, regs = p_kinds.op_regions(fx, f)
        if "Special" not in regs:
            obs.append(anchor_ob("R-ORDER", "%s Special arm" % lab))
            continue
        rms = [(bi, t) for bi, t in q.calls_to(f, REMOVE_FILE) if bi in regs["Special"]]
        if not rms:
            obs.append(anchor_ob("R-ORDER", "%s Special arm performs remove_file" % lab))
        for n, (bi, t) in enumerate(rms):
            ok, why = q.gated(f, bi, CONFIG, "no_clobber", False)
            obs.append(Ob("R-ORDER", mkkey("R-ORDER", lab, REMOVE_FILE, n, "gated:no_clobber=False"), ok, q.loc_of(t), lab,
                          "remove_file of an existing destination entry: %s" % why, None if ok else dict(block="bb%d" % bi)))
            # existence predicates this removal is control-dependent on (true polarity)
            cfg = cfg_of(f)
            okp, whyp = False, "no existence predicate guards remove_file"
            for (sb, prims, true_t, false_t) in _exists_predicates(fx, f, regs["Special"]):
                if bi not in cfg.reach([0], blocked_edges=[(sb, true_t)]):
                    okp, whyp = _is_lstat_probe(fx, prims)
                    if okp:
                        break
            obs.append(Ob("R-PROBE", mkkey("R-PROBE", lab, REMOVE_FILE, n, "clobber-gate-lstat"), okp, q.loc_of(t), lab,
                          "existence predicate before remove_file: %s" % whyp))
        for k, (u, v) in enumerate([e for e in ro.edge_target(f, CONFIG, "no_clobber", True) if e[0] in regs["Special"]]):
            obs.append(ro.region_must_fail(fx, f, v, "R-ORDER", mkkey("R-ORDER", lab, "no_clobber", k, "must-fail"),
                                           "special file onto existing entry with no_clobber",
                                           loc=q.loc_of(f.blocks[u]["term"])))
    return obs


def _gates_of_block(f, bi):
    """Call-result gates that block bi is control-dependent on (true polarity)."""
    cfg = cfg_of(f)
    out = []
    for b2, b in enumerate(f.blocks):
        t = b["term"]
        if b.get("cleanup") or t["k"] != "switch" or t.get("op_ty") != "bool":
            continue
        for r in q.switch_field_reads(f, b2):
            if r[0] != "call":
                continue
            ok, _ = q.gated(f, bi, "call", r[1], True)
            if ok:
                out.append(r)
    return out


def _declared_conflict(fx, a, b):
    """Location of a clap `Arg::new(x).conflicts_with(y)` with {x, y} == {a, b} in the binary's derive expansion."""
    from cfg import Prov
    for f in fx.fns.values():
        if f.crate != "xcp":
            continue
        tbl = None
        for bi, t in f.calls(include_cleanup=False) if hasattr(f, "calls") else []:
            o = q.names(t)[0] or ""
            if not o.startswith("clap_builder::builder::arg::Arg::conflicts_with") or len(t["args"]) < 2:
                continue
            other = (t["args"][1].get("c") or {}).get("s")
            if other not in (a, b):
                continue
            if tbl is None:
                tbl = {}
                for _b2, t2 in f.calls():
                    n2 = q.names(t2)[0] or ""
                    if n2.startswith("clap_builder::builder::arg::Arg::") and not n2.endswith("::new"):
                        tbl[n2] = [0]
            l = op_local(t["args"][0])
            if l is None:
                continue
            atoms, _f, _s = Prov(f, table=tbl).origins(l)
            for at in atoms:
                if at.kind == "call" and at.what.endswith("Arg::new") and at.site is not None:
                    nm = None
                    for arg in at.site.node["args"]:
                        nm = nm or (arg.get("c") or {}).get("s")
                    if nm is None:
                        ca, _a2, _f2 = q.arg_origin_calls(f, at.site.node, 0)
                        for a2 in _a2:
                            if a2.kind == "const" and isinstance(a2.what, str):
                                nm = nm or a2.what.split(":")[-1]
                    if nm is not None and {nm.strip('"'), other} == {a, b}:
                        return q.loc_of(t)
    return None


def force_conflict(fx):
    """(d) --no-clobber with --force is rejected before the copy starts (on main's inlined view, so the check may
    live in any helper or method of the options type)."""
    import views
    obs = []
    m = views.main_view(fx)
    if m is None:
        return [anchor_ob("R-ORDER", "xcp::main")]
    cfg = cfg_of(m)
    nc = ro.edge_target(m, OPTS, "no_clobber", True)
    fr = ro.edge_target(m, OPTS, "force", True)
    both = [(u, v) for (u, v) in fr if any(u in edge_region(m, a, b) | {b} for (a, b) in nc)] or \
           [(u, v) for (u, v) in nc if any(u in edge_region(m, a, b) | {b} for (a, b) in fr)]
    if not both:
        # the conflict may be declared to the option parser instead (`#[arg(conflicts_with = "no_clobber")]`): the
        # parser then rejects the combination inside Opts::parse(), before main does anything
        decl = _declared_conflict(fx, "force", "no_clobber")
        if decl:
            obs.append(Ob("R-ORDER", mkkey("R-ORDER", MAIN, "no_clobber&&force", 0, "declared-conflict"), True, decl, MAIN,
                          "--force and --no-clobber are declared as conflicting to the option parser (rejected while parsing)"))
            return obs
        obs.append(anchor_ob("R-ORDER", "main: no branch on no_clobber && force"))
    sp = [bi for bi, t in q.calls_to(m, {SPAWN})]
    for k, (u, v) in enumerate(both):
        obs.append(ro.region_must_fail(fx, m, v, "R-ORDER", mkkey("R-ORDER", MAIN, "no_clobber&&force", k, "must-fail"),
                                       "no_clobber && force", loc=q.loc_of(m.blocks[u]["term"])))
        ok = bool(sp) and all(cfg.set_dominates([a for (a, b) in nc + fr], s_) for s_ in sp)
        obs.append(Ob("R-ORDER", mkkey("R-ORDER", MAIN, "no_clobber&&force", k, "before-copy"), ok,
                      q.loc_of(m.blocks[u]["term"]), MAIN, "the option conflict is tested before the copy starts: %s" % ok))
    return obs


def c08(ctx):
    fx = ctx.fx("A")
    ctx.add(walker_gate(fx))
    ctx.add(special_arm_gate(fx))
    ctx.add(destructive_confined(fx))
    ctx.add(force_conflict(fx))


# --------------------------------------------------------------------------
# C09
# --------------------------------------------------------------------------

BACKUP_ADT = "libxcp::config::Backup"


def backup_rename(fx):
    """(a),(d) on the workers' inlined views (the backup decision and name computation inlined, whatever functions
    they live in), once per assumed value of Config.backup -- edges contradicting the assumption removed:
      none      no rename of the destination is reachable;
      numbered  a rename is reachable, and only through a true outcome of an existence test of the destination;
      auto      additionally only after the directory has been scanned for earlier backups;
    and in every mode: the rename never follows the (re)creation of the destination, its target is computed from
    the renamed path by the backup-name logic, and nothing else (copy, remove) touches the old file."""
    import views, p_kinds
    obs = []
    variants = [v["name"] for v in fx.adts.get(BACKUP_ADT, {}).get("variants", [])]
    if sorted(variants) != ["Auto", "None", "Numbered"]:
        obs.append(anchor_ob("R-TABLE", "Backup variants None/Auto/Numbered (found %s)" % variants))
    n = 0
    for lab, f in views.workers(fx):
        rn = q.calls_to(f, RENAME)
        if not rn:
            continue
        cfg = cfg_of(f)
        fv, regs = p_kinds.op_regions(fx, f)
        sw = p_kinds.type_variant_switches(f, OPERATION)
        entries = [m["Copy"] for sb_, m in sw if "Copy" in m]
        barriers = [sb_ for sb_, m_ in sw]
        if not entries:
            obs.append(anchor_ob("R-ORDER", "%s: Copy arm" % lab))
            continue
        creates = [b for b, t in q.calls_to(f, {FILE_CREATE, "std::fs::OpenOptions::open"})]
        scans = [b for b, t, h in ro.performers(fx, f, {"std::path::Path::read_dir", "std::fs::read_dir"})]
        rblocks = [bi for bi, t in rn]
        tests = 0
        for mode in ("None", "Numbered", "Auto"):
            be, nt = p_kinds.assume_mode(f, CONFIG, "backup", mode, variants)
            tests += nt
            r = cfg.reach(entries, blocked=barriers, blocked_edges=be)
            reach_rn = [b for b in rblocks if b in r]
            if mode == "None":
                ok = not reach_rn
                obs.append(Ob("R-ORDER", mkkey("R-ORDER", lab, RENAME, 0, "mode:None"), ok, q.loc_of(rn[0][1]), lab,
                              "with backup=none the destination is never renamed away: %s" % ok,
                              None if ok else dict(rename_blocks=reach_rn)))
                continue
            okr = bool(reach_rn)
            # existence predicates (on the destination) inside the arm, under this mode
            preds = [(sb, prims, tt, ft) for (sb, prims, tt, ft) in _exists_predicates(fx, f, r)]
            true_edges = [(sb, tt) for (sb, prims, tt, ft) in preds]
            r2 = cfg.reach(entries, blocked=barriers, blocked_edges=be + true_edges)
            oke = bool(preds) and not any(b in r2 for b in rblocks)
            oks = True
            if mode == "Auto":
                r3 = cfg.reach(entries, blocked=set(barriers) | set(scans), blocked_edges=be)
                oks = bool(scans) and not any(b in r3 for b in rblocks)
            ok = okr and oke and oks
            obs.append(Ob("R-TABLE", mkkey("R-TABLE", lab, RENAME, 0, "mode:" + mode), ok, q.loc_of(rn[0][1]), lab,
                          "with backup=%s the rename is reachable (%s), only when the destination exists (%s)%s" % (
                              mode.lower(), okr, oke, "" if mode != "Auto" else ", only after scanning for earlier backups (%s)" % oks),
                          None if ok else dict(mode=mode, predicates=[sb for sb, _p, _t, _f in preds], scans=scans)))
        if tests == 0:
            obs.append(anchor_ob("R-ORDER", "%s tests Config.backup" % lab))
        for (bi, t) in rn:
            n += 1
            # the new name is computed from the path that is renamed, by the backup-name logic
            c1, a1, f1 = q.arg_origin_calls(f, t, 1, table=BACKUP_FLOW)
            c0, a0, f0 = q.arg_origin_calls(f, t, 0, table=BACKUP_FLOW)
            src0 = set(a.key()[:2] for a in a0 if a.kind in ("arg", "call"))
            src1 = set(a.key()[:2] for a in a1 if a.kind in ("arg", "call"))
            # same path plus something (the numbered suffix); which number is chosen is the numeric-order rule
            okn = bool(src0) and src0 <= src1 and bool(c1 - c0)
            obs.append(Ob("R-TABLE", mkkey("R-TABLE", lab, RENAME, 0, "backup-name"), okn, q.loc_of(t), lab,
                          "rename target is computed from the renamed path by the backup-name logic: %s" % sorted(x.split("::")[-1] for x in c1),
                          None if okn else dict(target_from=sorted(c1), renamed_from=sorted(map(str, src0)))))
            # never create-then-rename within one operation
            after = [c for c in creates if bi in cfg.reach([c], blocked=barriers) and c != bi]
            okp = bool(creates) and not after
            obs.append(Ob("R-ORDER", mkkey("R-ORDER", lab, RENAME, 0, "before-create"), okp, q.loc_of(t), lab,
                          "the old file is renamed away before the destination is (re)created, never after: %s" % okp,
                          None if okp else dict(rename="bb%d" % bi, creates_before_it=after)))
            bad = [(b_, t_) for b_, t_ in q.calls_to(f, {REMOVE_FILE, "std::fs::copy", "std::fs::write"}) if b_ in regs.get("Copy", ())]
            obs.append(Ob("R-WHO", mkkey("R-WHO", lab, "rename-only", 0), not bad, q.loc_of(t), lab,
                          "old destination preserved by atomic rename only (no copy+delete): %s" % (not bad),
                          dict(found=[q.loc_of(x[1]) for x in bad]) if bad else None))
    if n == 0:
        obs.append(anchor_ob("R-ORDER", "no std::fs::rename in any worker role"))
    return obs


def backup_names_exact(fx):
    """(b) recognition and numbering compare file names as bytes: no lossy/partial OsStr->str conversion of
    file-name data (a conversion of the *extension* only is exact: a backup suffix is ASCII)."""
    obs = []
    n = 0
    scanned = 0
    for f in ro.fns_in_scope(fx, crates=("libxcp",)):
        if not f.path.startswith("libxcp::backup::"):
            continue
        scanned += 1
        for bi, t in q.calls_to(f, LOSSY):
            calls, atoms, fields = q.arg_origin_calls(f, t, 0, table=BACKUP_FLOW)
            name_src = {"std::path::Path::file_name", "std::fs::DirEntry::file_name", "std::fs::DirEntry::path",
                        "std::path::Path::file_stem"}
            from_name = bool(calls & name_src) or (not calls and any(a.kind == "arg" for a in atoms))
            only_ext = calls and calls <= {"std::path::Path::extension"}
            ok = bool(only_ext) and not from_name
            obs.append(Ob("R-TABLE", mkkey("R-TABLE", f.path, q.names(t)[0], n, "lossy-name"), ok, q.loc_of(t), f.path,
                          "%s applied to data from %s" % (q.names(t)[0].split("::")[-1], sorted(calls) or "a parameter"),
                          None if ok else dict(origins=[repr(a) for a in atoms])))
            n += 1
    if scanned < 5:
        obs.append(anchor_ob("R-TABLE", "backup module functions (found %d)" % scanned))
    obs.append(Ob("R-TABLE", mkkey("R-TABLE", "libxcp::backup", "lossy-scan", 0), True, "", "libxcp::backup",
                  "scanned %d backup functions for lossy name conversions" % scanned))
    return obs


BACKUP_FLOW = {
    "core::option::Option::<T>::ok_or": [0],
    "std::path::Path::new": [0],
    "std::path::Path::to_path_buf": [0], "std::path::PathBuf::into_os_string": [0], "std::path::Path::as_os_str": [0],
    "core::ops::try_trait::Try::branch": [0],
}


def backup_decision_table(fx):
    """(d) is decided by backup_rename's per-mode clauses."""
    return []


def c09(ctx):
    fx = ctx.fx("A")
    ctx.add(backup_rename(fx))
    ctx.add(backup_names_exact(fx))
    ctx.add(backup_decision_table(fx))
    ctx.add(backup_numeric_order(fx))
    ctx.add(backup_scan_by_name(fx))
    ctx.add(backup_same_directory(fx))
    ctx.add([o for o in r_err.run(fx, crates=("libxcp",)) if o.fn.startswith("libxcp::backup::")
             or "rename" in o.key or "backup" in o.key or "read_dir" in o.key])


# --------------------------------------------------------------------------
# C13
# --------------------------------------------------------------------------

PATH_FLOW = {
    "std::path::Path::to_path_buf": [0],
    "walkdir::dent::DirEntry::into_path": [0],
    "std::path::Path::symlink_metadata": [0], "std::path::Path::metadata": [0], "std::fs::symlink_metadata": [0],
    "std::fs::Metadata::file_type": [0], "core::convert::From::from": [0],
}


def dereference_rules(fx):
    import views
    obs = []
    f = views.walker_view(fx)
    if f is None:
        return [anchor_ob("R-TABLE", "a thread role that iterates a WalkDir")]
    FOLLOW = "walkdir::WalkDir::follow_links"
    fl = q.calls_to(f, FOLLOW)
    ok = False
    why = "WalkDir builder chain has no follow_links(..): links to directories are not descended under -L"
    wit = None
    for bi, t in fl:
        calls, atoms, fields = q.arg_origin_calls(f, t, 1)
        if (CONFIG, "dereference") in fields:
            ok = True
            why = "follow_links argument derives from config.dereference"
        else:
            why = "follow_links argument does not derive from config.dereference"
            wit = dict(origins=[repr(a) for a in atoms], fields=sorted(map(str, fields)))
    obs.append(Ob("R-TABLE", mkkey("R-TABLE", WALKER, FOLLOW, 0, "deref"), ok,
                  q.loc_of(fl[0][1]) if fl else f.loc(), WALKER, why, wit))
    cn = q.calls_to(f, "std::fs::canonicalize")
    if not cn:
        obs.append(anchor_ob("R-ORDER", "the walker calls canonicalize"))
    for n, (bi, t) in enumerate(cn):
        okg, whyg = q.gated(f, bi, CONFIG, "dereference", True)
        obs.append(Ob("R-ORDER", mkkey("R-ORDER", WALKER, "std::fs::canonicalize", n, "gated:dereference=True"), okg,
                      q.loc_of(t), WALKER, "canonicalize: %s" % whyg, None if okg else dict(block="bb%d" % bi)))
    # the kind dispatch uses metadata of the dereferenced path: the FileType switched on derives from canonicalize
    import p_kinds
    hit = False
    sw = p_kinds.type_variant_switches(f, p_kinds.FILETYPE)
    for bi, b in enumerate(f.blocks):
        for s_ in b["stmts"]:
            rv = s_["rv"]
            if rv["k"] == "discr" and rv.get("adt") == p_kinds.FILETYPE:
                atoms, fields, seen = Prov(f, table=PATH_FLOW).origins(rv["pl"]["l"])
                if any(a.kind == "call" and a.what == "std::fs::canonicalize" for a in atoms):
                    hit = True
    obs.append(Ob("R-TABLE", mkkey("R-TABLE", WALKER, "dispatch-metadata", 0, "from-canonical"), hit, f.loc(), WALKER,
                  "the kind the dispatch switches on derives from the canonicalised path: %s" % hit,
                  None if hit else dict(note="dispatching on the link's own metadata would copy links as links under -L")))
    return obs


def c13(ctx):
    fx = ctx.fx("A")
    ctx.add(dereference_rules(fx))
    ctx.add([o for o in r_err.run(fx, crates=("libxcp",)) if
             ("canonicalize" in o.key or ("Iterator::next" in o.key and "walk" in o.what.lower() + o.fn.lower()) or "symlink_metadata" in o.key)])


# --------------------------------------------------------------------------
# added after the first round of independently seeded changes
# --------------------------------------------------------------------------

INT_TYPES = {"u8", "u16", "u32", "u64", "u128", "usize", "i8", "i16", "i32", "i64", "i128", "isize"}
ORDERING_CALLS = {
    "core::cmp::Ord::max", "core::cmp::Ord::min", "core::cmp::max", "core::cmp::min", "core::cmp::Ord::cmp",
    "core::cmp::PartialOrd::lt", "core::cmp::PartialOrd::le", "core::cmp::PartialOrd::gt", "core::cmp::PartialOrd::ge",
    "core::cmp::PartialOrd::partial_cmp", "core::cmp::max_by", "core::cmp::max_by_key",
    "core::iter::traits::iterator::Iterator::max", "core::iter::traits::iterator::Iterator::min",
    "core::iter::traits::iterator::Iterator::max_by", "core::iter::traits::iterator::Iterator::max_by_key",
    "core::iter::traits::iterator::Iterator::min_by", "core::iter::traits::iterator::Iterator::min_by_key",
    "core::slice::<impl [T]>::sort", "core::slice::<impl [T]>::sort_unstable", "core::slice::<impl [T]>::sort_by",
    "core::slice::<impl [T]>::sort_by_key", "alloc::slice::<impl [T]>::sort", "alloc::slice::<impl [T]>::sort_by",
    "alloc::slice::<impl [T]>::sort_by_key",
}


def _int_like(ty):
    t = ty.replace("&", "").replace("mut ", "").strip()
    for w in ("core::option::Option<", "core::iter::"):
        if t.startswith("core::option::Option<") and t.endswith(">"):
            t = t[len("core::option::Option<"):-1]
    return t in INT_TYPES


ENTRY_TYPE_PROBES = ("std::fs::DirEntry::file_type", "std::fs::DirEntry::metadata", "std::fs::FileType::is_file",
                     "std::fs::FileType::is_dir", "std::fs::FileType::is_symlink")


def backup_scan_by_name(fx):
    """C09: which backup numbers are taken is decided by the *names* in the directory.  Any entry called
    `<file>.~N~` occupies N whatever it is -- a regular file, a symlink (xcp makes such backups itself when the
    destination was a link), a directory (renaming onto it would fail or merge): a scan that looks at the entry's
    type skips some of them and hands out a number that is taken."""
    obs = []
    cg = q.callgraph(fx)
    scanners = set(p_ for p_, g_ in fx.fns.items() if g_.crate == "libxcp" and not g_.from_expansion and any(
        x in cg.reach(p_) for x in ("std::path::Path::read_dir", "std::fs::read_dir")))
    import views as _v
    role_entries = set(_v.roles(fx).values()) | set(ENTRY_POINTS) | {MAIN}
    n = 0
    for f in ro.fns_in_scope(fx, crates=("libxcp",)):
        in_scope = f.path.startswith("libxcp::backup::") or ((f.path in scanners or f.root in scanners)
                                                             and f.path not in role_entries and f.root not in role_entries
                                                             and not cg.reach(f.path).get(CB_SEND) and "drivers" not in f.path
                                                             and WALKER != f.root and NEW != f.root)
        if not in_scope:
            continue
        for bi, t in f.calls():
            o = q.names(t)[0] or ""
            if o in ENTRY_TYPE_PROBES and not q.span_excluded(t["span"]):
                obs.append(Ob("R-PROBE", mkkey("R-PROBE", f.path, o, n, "scan-by-name"), False, q.loc_of(t), f.path,
                              "the backup scan looks at an entry's type (%s): an entry of another type with a backup's name "
                              "still occupies its number" % o.split("::")[-1], dict(callee=o)))
                n += 1
    obs.append(Ob("R-PROBE", mkkey("R-PROBE", "libxcp::backup", "scan-by-name", 0, "scan"), True, "", "libxcp::backup",
                  "the backup-number scan decides by entry names only (no file-type probe of directory entries)"))
    return obs


RESOLVERS = ("std::path::Path::canonicalize", "std::fs::canonicalize", "std::path::Path::read_link", "std::fs::read_link")


def backup_same_directory(fx):
    """C09: earlier backups are looked for in the directory in which the new backup will be *named* (the lexical
    parent of the destination as spelt).  Resolving the destination's own last component (canonicalize / read_link
    on the path itself) lists the directory of a symlink's *target* instead: backups sitting next to the link are
    not seen, and `~1~` is handed out again.  Resolving the parent (a value obtained from `Path::parent`) names the
    same directory and is accepted."""
    obs = []
    cg = q.callgraph(fx)
    scanners = set(p_ for p_, g_ in fx.fns.items() if g_.crate == "libxcp" and not g_.from_expansion and any(
        x in cg.reach(p_) for x in ("std::path::Path::read_dir", "std::fs::read_dir")))
    import views as _v
    role_entries = set(_v.roles(fx).values()) | set(ENTRY_POINTS) | {MAIN}
    n = 0
    for f in ro.fns_in_scope(fx, crates=("libxcp",)):
        in_scope = f.path.startswith("libxcp::backup::") or ((f.path in scanners or f.root in scanners)
                                                             and f.path not in role_entries and f.root not in role_entries
                                                             and not cg.reach(f.path).get(CB_SEND) and "drivers" not in f.path
                                                             and WALKER != f.root and NEW != f.root)
        if not in_scope:
            continue
        for bi, t in f.calls():
            o = q.names(t)[0] or ""
            pth = q.names(t)[1] or ""
            if (o in RESOLVERS or pth in RESOLVERS) and not q.span_excluded(t["span"]) and t["args"]:
                calls, atoms, fields = q.arg_origin_calls(f, t, 0)
                of_parent = any(c.endswith("Path::parent") for c in calls)
                obs.append(Ob("R-PROBE", mkkey("R-PROBE", f.path, o or pth, n, "same-directory"), of_parent, q.loc_of(t), f.path,
                              "%s in the backup logic %s" % ((o or pth).split("::")[-1],
                                                             "resolves the parent directory (same directory)" if of_parent else
                                                             "resolves the destination's own name: for a symlinked destination "
                                                             "the scan lists the target's directory, not the one the backup is named in"),
                              None if of_parent else dict(callee=o or pth)))
                n += 1
    obs.append(Ob("R-PROBE", mkkey("R-PROBE", "libxcp::backup", "same-directory", 0, "scan"), True, "", "libxcp::backup",
                  "the backup scan lists the lexical parent of the destination (no symlink resolution of the name itself)"))
    return obs


def backup_numeric_order(fx):
    """C09: the backup number is chosen by *numeric* order: every ordering operation (max/min/compare/sort) in the
    backup-name functions works on integers, never on names or paths (lexicographic order puts ~9~ after ~10~)."""
    obs = []
    n = 0
    nfn = 0
    cg = q.callgraph(fx)
    scanners = set(p_ for p_, g_ in fx.fns.items() if g_.crate == "libxcp" and not g_.from_expansion and any(
        x in cg.reach(p_) for x in ("std::path::Path::read_dir", "std::fs::read_dir")))
    import views as _v
    role_entries = set(_v.roles(fx).values()) | set(ENTRY_POINTS) | {MAIN}
    for f in ro.fns_in_scope(fx, crates=("libxcp",)):
        # the backup-name logic: the backup module, and whatever (below the roles) scans a directory for earlier backups
        in_scope = f.path.startswith("libxcp::backup::") or ((f.path in scanners or f.root in scanners)
                                                             and f.path not in role_entries and f.root not in role_entries
                                                             and not cg.reach(f.path).get(CB_SEND) and "drivers" not in f.path
                                                             and WALKER != f.root and NEW != f.root)
        if not in_scope:
            continue
        nfn += 1
        # explicit comparisons (`if num > current`) order values too
        for bi, b in enumerate(f.blocks):
            if b.get("cleanup"):
                continue
            for s_ in b["stmts"]:
                rv = s_["rv"]
                if rv["k"] == "bin" and rv["op"] in ("Gt", "Lt", "Ge", "Le"):
                    tys = []
                    for o_ in (rv["a"], rv["b"]):
                        l_ = op_local(o_)
                        tys.append(f.locals[l_]["ty"] if l_ is not None else (o_.get("c") or {}).get("ty", "?"))
                    if all(t_ in ("usize", "bool") for t_ in tys):
                        continue        # lengths, indices
                    ok = all(_int_like(x) for x in tys)
                    obs.append(Ob("R-TABLE", mkkey("R-TABLE", f.path, "compare:" + rv["op"], n, "numeric-order"), ok,
                                  "%s:%d" % (s_["span"]["file"], s_["span"]["line"]), f.path,
                                  "%s in the backup-number logic orders values of type %s" % (rv["op"], tys),
                                  None if ok else dict(types=tys)))
                    n += 1
        for bi, t in f.calls():
            if q.span_excluded(t["span"]):
                continue
            o = q.names(t)[0]
            if o not in ORDERING_CALLS:
                continue
            tys = list(t.get("arg_tys", []))
            it = t["fn"].get("iter_item")
            if it and "Iterator::" in o:
                tys = [it]
            elif o.startswith("core::iter::"):
                tys = []
            ok = bool(tys) and all(_int_like(x) for x in tys)
            obs.append(Ob("R-TABLE", mkkey("R-TABLE", f.path, o, n, "numeric-order"), ok, q.loc_of(t), f.path,
                          "%s in the backup-number logic orders values of type %s" % (o.split("::")[-1], tys),
                          None if ok else dict(types=tys, note="backup versions must be ordered numerically")))
            n += 1
    if n == 0:
        obs.append(anchor_ob("R-TABLE", "no ordering operation in the backup-number functions (scanned %d)" % nfn))
    return obs


def helpers_always_apply(fx):
    """C10/C18/C11: each attribute helper performs its primitive on every path that does not fail (evaluated on
    the helper's inlined view; "does not fail" = reaches the return without passing a block that returns Err)."""
    import views, r_err
    obs = []
    table = [("libfs::common::copy_permissions", SET_PERMISSIONS), ("libfs::common::copy_timestamps", SET_TIMES),
             ("libfs::common::copy_owner", FCHOWN), ("libfs::common::sync", FSYNC),
             ("libfs::common::allocate_file", FTRUNCATE)]
    for fn_, prim in table:
        f = views.view(fx, fn_, depth=4) if fx.fn(fn_) is not None else None
        if f is None:
            obs.append(anchor_ob("R-ORDER", fn_))
            continue
        cfg = cfg_of(f)
        perf = [b for b, t, h in ro.performers(fx, f, prim)]
        sig = r_err.signal_blocks(f)
        r = cfg.reach([0], blocked=set(perf) | set(sig))
        leak = [b for b in cfg.returns if b in r]
        ok = bool(perf) and not leak
        obs.append(Ob("R-ORDER", mkkey("R-ORDER", fn_, prim, 0, "ok-requires"), ok, f.loc(), fn_,
                      "%s returns Ok only after %s: %s" % (fn_.split("::")[-1], prim.split("::")[-1], ok),
                      None if ok else dict(performers=perf, returns_reached=leak)))
    return obs


def extents_forwarded(fx):
    """C01/C11: every extent the kernel reports is appended to the map: either a push that dominates the latch of
    the loop over the mapped extents, or an `extend`/`collect` of an iterator chain over them that only maps
    (no filter/skip/take/step_by): an extent that is skipped is data that is never queued."""
    import views
    obs = []
    MAP_ = "libfs::linux::map_extents"
    f = views.view(fx, MAP_, depth=4)
    if f is None:
        return [anchor_ob("R-ORDER", "libfs::linux::map_extents")]
    cfg = cfg_of(f)
    cg = q.callgraph(fx)

    def builds_extent(fnpath, seen=()):
        g = fx.fns.get(fnpath)
        if g is None or fnpath in seen:
            return False
        for b in g.blocks:
            for s_ in b["stmts"]:
                if s_["rv"]["k"] == "agg" and s_["rv"].get("adt") == "libfs::Extent":
                    return True
        return any(builds_extent(d, tuple(seen) + (fnpath,)) for (_b, d, loc, via) in cg.out.get(fnpath, []) if loc)
    def from_builder(l, depth=0):
        """The value is the result (through plain moves) of a call to a function that builds an Extent."""
        from cfg import whole_defs
        if l is None or depth > 6:
            return False
        ds = whole_defs(f, l)
        if len(ds) != 1:
            return False
        d = ds[0]
        if d.is_term:
            return d.node["k"] == "call" and builds_extent(q.names(d.node)[1])
        rv = d.node["rv"]
        if rv["k"] == "use" and not (op_place(rv["op"]) or {"p": 1}).get("p"):
            return from_builder(op_local(rv["op"]), depth + 1)
        return False
    pushes = []
    for bi, t in q.calls_to(f, "alloc::vec::Vec::<T, A>::push"):
        l = op_local(t["args"][1])
        if from_builder(l):
            pushes.append((bi, t))
            continue
        atoms, _f, _s = Prov(f, through_agg=False).origins(l)
        if any(a.kind == "agg" and a.what == "libfs::Extent" for a in atoms) or \
                any(a.kind == "call" and (builds_extent(a.what) or (a.site is not None and a.site.is_term and
                                                                    builds_extent(q.names(a.site.node)[1]))) for a in atoms):
            pushes.append((bi, t))
    bulk = []
    LOSSY_ADAPTORS = ("filter", "filter_map", "skip", "skip_while", "take", "take_while", "step_by", "map_while", "scan",
                      "flat_map", "flatten", "fuse", "peekable", "zip", "chain", "rev", "cycle", "dedup")
    for bi, t in f.calls():
        o = callee_orig(t)
        if o not in ("core::iter::traits::collect::Extend::extend", "core::iter::traits::iterator::Iterator::collect"):
            continue
        ai = 1 if o.endswith("extend") else 0
        if "libfs::Extent" not in (t.get("dest_ty", "") + " ".join(t.get("arg_tys", []))):
            continue
        c, atoms, ff = q.arg_origin_calls(f, t, ai, table={
            "core::iter::traits::iterator::Iterator::map": [0], "core::slice::<impl [T]>::iter": [0],
            "core::iter::traits::collect::IntoIterator::into_iter": [0], "core::ops::deref::Deref::deref": [0],
            "core::ops::index::Index::index": [0]})
        lossy = sorted(x for x in c if x.startswith("core::iter::traits::iterator::Iterator::") and x.rsplit("::", 1)[1] in LOSSY_ADAPTORS)
        maps = False
        for b2, t2 in q.calls_to(f, "core::iter::traits::iterator::Iterator::map"):
            fv = list(t2["fn"].get("fnvals", [])) + [a_["c"]["fn"]["path"] for a_ in t2["args"] if "c" in a_ and "fn" in a_["c"]]
            if any(builds_extent(x) for x in fv):
                maps = True
        bulk.append((bi, t, lossy, maps))
    if not pushes and not bulk:
        return [anchor_ob("R-ORDER", "map_extents appends libfs::Extent values (push in a loop, or extend/collect of a mapped iterator)")]
    loops = cfg.loops()
    for n, (bi, t) in enumerate(pushes):
        inner = None
        for h, body in loops.items():
            if bi in body and (inner is None or len(body) < len(inner[1])):
                inner = (h, body)
        if inner is None:
            obs.append(anchor_ob("R-ORDER", "the extent push is inside a loop"))
            continue
        h, body = inner
        latches = [u for (u, v) in cfg.back_edges() if v == h and u in body]
        ok = all(cfg.set_dominates([b2 for b2, t2 in pushes if b2 in body], u) for u in latches)
        obs.append(Ob("R-ORDER", mkkey("R-ORDER", MAP_, "append(Extent)", n, "every-iteration"), ok, q.loc_of(t), MAP_,
                      "every extent returned by FIEMAP is appended to the map (no iteration skips the push): %s" % ok,
                      None if ok else dict(push="bb%d" % bi, latches=latches)))
    for n, (bi, t, lossy, maps) in enumerate(bulk):
        ok = maps and not lossy
        obs.append(Ob("R-ORDER", mkkey("R-ORDER", MAP_, "append(Extent)", n, "every-element"), ok, q.loc_of(t), MAP_,
                      "every extent returned by FIEMAP is appended to the map (the iterator chain only maps): %s%s" % (
                          ok, "" if not lossy else " -- lossy adaptors: %s" % [x.rsplit("::", 1)[1] for x in lossy]),
                      None if ok else dict(lossy=lossy, maps_to_extent=maps)))
    return obs


