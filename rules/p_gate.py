"""C03 (sources never modified), C08 (--no-clobber), C09 (numbered backups),
C13 (--dereference): gates, dominance and who-may-call rules."""
from cfg import cfg_of, Prov, op_local, op_place, defuse, place_fields
from engine import Ob, mkkey, anchor_ob
import q
import r_order as ro
import r_err
from names import *


# --------------------------------------------------------------------------
# shared helpers
# --------------------------------------------------------------------------

def driver_reach(fx):
    """Workspace functions reachable from the two CopyDriver::copy entry points (incl. closures,
    thread bodies and Drop impls run by drops inside them)."""
    cg = q.callgraph(fx)
    out = set()
    for e in ENTRY_POINTS:
        if e in fx.fns:
            out |= cg.local_reach(e)
    # Drop impls of workspace types are run by drops anywhere in the reachable code
    for f in list(out):
        fn = fx.fns.get(f)
        if fn is None:
            continue
        for b in fn.blocks:
            t = b["term"]
            if t["k"] == "drop":
                for d in t.get("dtors", []):
                    for i in fx.impls:
                        if i["trait"] == "core::ops::drop::Drop" and i["self_ty"] == d:
                            dp = "<%s as core::ops::drop::Drop>::drop" % d
                            if dp in fx.fns:
                                out |= cg.local_reach(dp)
    return out


def variant_edges(fn, adt, field):
    """Switches on the discriminant of a place whose last named field is adt.field:
    [(switch block, {variant: target}, otherwise)]"""
    du = defuse(fn)
    out = []
    for bi, b in enumerate(fn.blocks):
        if b.get("cleanup"):
            continue
        for s in b["stmts"]:
            rv = s["rv"]
            if rv["k"] != "discr":
                continue
            fl = place_fields(rv["pl"])
            if not fl or fl[-1] != (adt, field):
                continue
            dl = s["lhs"]["l"]
            vmap = {v["val"]: v["name"] for v in rv.get("variants", [])}
            for site, how in du.uses.get(dl, []):
                if how == "switch" and site.is_term:
                    t = site.node
                    m = {}
                    for v, tb in t["targets"]:
                        m[vmap.get(str(v), str(v))] = tb
                    missing = [n for n in vmap.values() if n not in m]
                    for n in missing:
                        m[n] = t["otherwise"]
                    out.append((site.bb, m, t["otherwise"]))
    return out


def edge_region(fn, u, v):
    """Blocks reachable only through edge (u,v)."""
    cfg = cfg_of(fn)
    without = cfg.reach([0], blocked_edges=[(u, v)])
    return set(b for b in cfg.reach([v]) if b not in without)


def identity_test_fns(fx):
    """Workspace functions that compare st_ino with st_ino and st_dev with st_dev (inode identity)."""
    INO = "std::os::unix::fs::MetadataExt::ino"
    DEV = "std::os::unix::fs::MetadataExt::dev"
    out = {}
    for f in ro.fns_in_scope(fx):
        if len(q.calls_to(f, INO)) < 2 or len(q.calls_to(f, DEV)) < 2:
            continue
        # both accessor results must meet in an == comparison
        pv = Prov(f, through_bin=False)
        okd = {INO: False, DEV: False}
        for bi, b in enumerate(f.blocks):
            if b.get("cleanup"):
                continue
            for s in b["stmts"]:
                rv = s["rv"]
                if rv["k"] == "bin" and rv["op"] in ("Eq", "Ne"):
                    srcs = []
                    for o in (rv["a"], rv["b"]):
                        l = op_local(o)
                        if l is None:
                            srcs.append(set())
                            continue
                        atoms, _f, _s = pv.origins(l)
                        srcs.append(set(a.what for a in atoms if a.kind == "call"))
                    for acc in (INO, DEV):
                        if acc in srcs[0] and acc in srcs[1]:
                            okd[acc] = True
        if okd[INO] and okd[DEV]:
            out[f.path] = f
    return out


# --------------------------------------------------------------------------
# C03
# --------------------------------------------------------------------------

def alias_gate(fx):
    """(b) every truncating open / rename of the destination that the drivers can reach is preceded by an
    inode-identity test between source and destination whose 'same' outcome fails."""
    obs = []
    ids = identity_test_fns(fx)
    reach = driver_reach(fx)
    sites = 0
    for f in ro.fns_in_scope(fx, crates=("libxcp", "libfs")):
        # calls that destroy or replace what the destination path names (creating calls -- symlink, mknod,
        # mkdir -- fail with EEXIST on an existing entry and cannot harm it)
        targets = q.calls_to(f, {FILE_CREATE, RENAME, REMOVE_FILE, "std::fs::remove_dir", "std::fs::remove_dir_all",
                                 "std::fs::OpenOptions::open", "std::fs::File::create_new"})
        if not targets:
            continue
        for n, (bi, t) in enumerate(targets):
            nm = q.names(t)[0]
            key = mkkey("R-ORDER", f.path, nm, n, "alias-gate")
            if f.path not in reach:
                o = Ob("R-ORDER", key, True, q.loc_of(t), f.path,
                       "%s in %s is not reachable from either driver (out-of-graph instance, listed only)" % (nm, f.path),
                       trivial=True)
                obs.append(o)
                continue
            sites += 1
            good, host, hostbi = _guarding_identity_test(fx, f, bi, ids, set())
            why = "no inode-identity test (st_dev/st_ino comparison of source and destination) guards this call"
            obs.append(Ob("R-ORDER", key, good is not None, q.loc_of(t), f.path,
                          "%s of the destination is %s" % (nm.split("::")[-1],
                                                           ("control-dependent on %s(..) == false" % good) if good else why),
                          None if good else dict(identity_tests=sorted(ids), block="bb%d" % bi)))
            if good:
                f = host     # the function in which the test guards the call (the caller, for a private helper)
                # the 'same file' outcome must fail on every path
                for (u, v) in ro.edge_target(f, "call", good, True):
                    obs.append(ro.region_must_fail(fx, f, v, "R-ORDER",
                                                   mkkey("R-ORDER", f.path, good, n, "same-file-fails"),
                                                   "source == destination outcome", loc=q.loc_of(t)))
                # the test's arguments: one side is the source, the other the destination (roles)
                import p_role
                R_ = p_role.roles(fx)
                for (cb, ct) in q.calls_to(f, good):
                    rs = [R_.operand_role(f, a) for a in ct["args"]]
                    okr = p_role.SRC in rs and p_role.DST in rs
                    obs.append(Ob("R-ROLE", mkkey("R-ROLE", f.path, good, n, "identity-args"), okr, q.loc_of(ct), f.path,
                                  "identity test compares a %s value with a %s value" % tuple((rs + ["?", "?"])[:2]),
                                  None if okr else dict(roles=rs)))
    if sites == 0:
        obs.append(anchor_ob("R-ORDER", "no truncating open of the destination reachable from the drivers"))
    return obs


def _guarding_identity_test(fx, f, bi, ids, seen):
    """The identity-test function on whose `false` outcome block bi of f is control-dependent; if f is a private
    helper, every one of its call sites must be guarded in the caller instead. Returns (test, host fn, block)."""
    for idf in ids:
        ok, w = q.gated(f, bi, "call", idf, False)
        if ok:
            return idf, f, bi
    if f.path in seen or f.raw.get("exported") or f.raw.get("reachable"):
        return None, None, None
    cg = q.callgraph(fx)
    res = None
    n = 0
    for c in sorted(cg.callers.get(f.path, ())):
        g = fx.fns.get(c)
        if g is None:
            continue
        for b2, t2 in g.calls():
            if q.names(t2)[1] == f.path or f.path in (t2["fn"].get("fnvals") or []):
                n += 1
                r = _guarding_identity_test(fx, g, b2, ids, seen | {f.path})
                if r[0] is None:
                    return None, None, None
                res = r
    return res if (n and res) else (None, None, None)


def destructive_confined(fx):
    """(c) destructive primitives are called only from the tabled functions."""
    obs = []
    for prim, allowed in sorted(DESTRUCTIVE.items()):
        obs += ro.callers_within(fx, prim, allowed, "R-WHO", "destructive primitive confined")
    obs.append(Ob("R-WHO", mkkey("R-WHO", "workspace", "destructive-scan", 0), True, "", "",
                  "scanned all workspace call sites for %d destructive primitives" % len(DESTRUCTIVE)))
    return obs


def sources_read_only(fx):
    """(a, open mode) the only way libxcp/libfs open a path for reading is File::open; no OpenOptions chain
    (which could add write/append/truncate) exists."""
    obs = []
    n = 0
    for f in ro.fns_in_scope(fx, crates=("libxcp", "libfs")):
        for bi, t in f.calls():
            o, p = q.names(t)
            if o and o.startswith("std::fs::OpenOptions::"):
                obs.append(Ob("R-WHO", mkkey("R-WHO", f.path, o, n, "openoptions"), False, q.loc_of(t), f.path,
                              "OpenOptions used: open mode is no longer visible from the callee identity",
                              dict(callee=o)))
                n += 1
    obs.append(Ob("R-WHO", mkkey("R-WHO", "libxcp+libfs", "openoptions-scan", 0), True, "", "",
                  "no OpenOptions builder in libxcp/libfs: files are opened by File::open (read-only) or File::create"))
    return obs


def c03(ctx):
    fx = ctx.fx("A")
    import p_role
    ctx.add(p_role.role_obs(fx, which=("mutating",)))
    ctx.add(alias_gate(fx))
    ctx.add(destructive_confined(fx))
    ctx.add(sources_read_only(fx))


# --------------------------------------------------------------------------
# C08
# --------------------------------------------------------------------------

def _exists_predicates(fx, f, region):
    """Boolean gates inside `region` whose operand is the result of a call: [(switch bb, callee, true target)]"""
    out = []
    cfg = cfg_of(f)
    for bi in sorted(region):
        b = f.blocks[bi]
        t = b["term"]
        if t["k"] != "switch" or t.get("op_ty") != "bool":
            continue
        for r in q.switch_field_reads(f, bi):
            if r[0] == "call":
                explicit = {int(v): tb for v, tb in t["targets"]}
                true_t = t["otherwise"] if 0 in explicit else explicit.get(1)
                false_t = explicit.get(0, t["otherwise"])
                if r[2]:
                    true_t, false_t = false_t, true_t
                out.append((bi, r[1], true_t, false_t))
    return out


def _is_lstat_probe(fx, callee):
    """The existence predicate must not follow a final symlink."""
    cg = q.callgraph(fx)
    if callee in fx.fns:
        r = cg.reach(callee)
        follows = sorted(x for x in LINK_FOLLOWING if x in r)
        lst = sorted(x for x in LSTAT if x in r)
        return (bool(lst) and not follows), "reaches %s" % (lst + follows)
    if callee in LSTAT:
        return True, callee
    return False, "%s follows symlinks or is not a probe" % callee


def walker_gate(fx):
    """(a) in the walker: when no_clobber is set and the target exists (lstat), the walker fails before any
    operation for that entry is queued or any directory is created; (b) the predicate is lstat-based."""
    obs = []
    f = fx.fn(WALKER)
    if f is None:
        return [anchor_ob("R-ORDER", WALKER)]
    cfg = cfg_of(f)
    te = ro.edge_target(f, CONFIG, "no_clobber", True)
    if not te:
        return [anchor_ob("R-ORDER", "tree_walker has no branch on config.no_clobber")]
    effects = ro.performers(fx, f, {CB_SEND, CREATE_DIR_ALL}, direct_only=True)
    eff_blocks = [b for b, t, h in effects if "Operation" in " ".join(t.get("arg_tys", [])) or
                  q.names(t)[0] == CREATE_DIR_ALL]
    if len(eff_blocks) < 4:
        obs.append(anchor_ob("R-ORDER", "walker effects (3 sends + create_dir_all) found %d" % len(eff_blocks)))
    found = False
    for (u, v) in te:
        region = edge_region(f, u, v)
        for (sb, callee, true_t, false_t) in _exists_predicates(fx, f, region | {v}):
            found = True
            okp, whyp = _is_lstat_probe(fx, callee)
            obs.append(Ob("R-PROBE", mkkey("R-PROBE", WALKER, callee, 0, "clobber-gate-lstat"), okp,
                          q.loc_of(f.blocks[sb]["term"]), WALKER,
                          "no-clobber existence predicate %s: %s" % (callee, whyp),
                          None if okp else dict(predicate=callee)))
            obs.append(ro.region_must_fail(fx, f, true_t, "R-ORDER",
                                           mkkey("R-ORDER", WALKER, "no_clobber&&exists", 0, "must-fail"),
                                           "no_clobber && exists", forbidden_blocks=eff_blocks,
                                           loc=q.loc_of(f.blocks[sb]["term"])))
            # and it sends an Error update (the run ends non-zero even for library clients)
        # on the no_clobber branch no effect can be reached around the existence predicate
        preds = [sb for (sb, callee, tt, ft) in _exists_predicates(fx, f, region | {v})]
        for n, (bi, t, h) in enumerate(effects):
            if bi not in eff_blocks or not preds:
                continue
            okp = cfg.passes_through(preds, v, [bi])
            obs.append(Ob("R-ORDER", mkkey("R-ORDER", WALKER, q.names(t)[0], n, "through-exists-test"), okp, q.loc_of(t),
                          WALKER, "with no_clobber set, %s is reachable only through the existence test: %s" % (
                              q.names(t)[0].split("::")[-1], okp),
                          None if okp else dict(effect="bb%d" % bi, predicates=preds)))
        # every effect is dominated by the no_clobber test
        for n, (bi, t, h) in enumerate(effects):
            if bi not in eff_blocks:
                continue
            ok = cfg.dominates(u, bi)
            obs.append(Ob("R-ORDER", mkkey("R-ORDER", WALKER, q.names(t)[0], n, "after-clobber-gate"), ok, q.loc_of(t),
                          WALKER, "%s is %sdominated by the no_clobber test" % (q.names(t)[0].split("::")[-1],
                                                                              "" if ok else "NOT "),
                          None if ok else dict(effect="bb%d" % bi, gate="bb%d" % u)))
    if not found:
        obs.append(anchor_ob("R-ORDER", "no existence predicate on the no_clobber==true branch of tree_walker"))
    return obs


def special_arm_gate(fx):
    """(a') wherever an existing destination entry is removed to make room for a special node, the removal is
    control-dependent on !no_clobber, the no_clobber branch fails, and the existence predicate is lstat-based.
    Anchored on the functions that directly call remove_file and are reached from both drivers' Special arms
    (so a shared helper is followed)."""
    import p_kinds
    obs = []
    cg = q.callgraph(fx)
    hosts = {}
    for w in (PF_WORKER, PB_DISPATCH):
        f, regs = p_kinds.op_regions(fx, w)
        if f is None or "Special" not in regs:
            obs.append(anchor_ob("R-ORDER", "%s Special arm" % w))
            continue
        r = cg.reach(f.path, blocks=regs["Special"])
        if REMOVE_FILE not in r:
            obs.append(anchor_ob("R-ORDER", "%s Special arm reaches remove_file" % w))
            continue
        host = r[REMOVE_FILE][-2]    # the workspace function that calls it
        hosts.setdefault(host, []).append(w)
    for host, ws in sorted(hosts.items()):
        f = fx.fn(host)
        rms = ro.performers(fx, f, REMOVE_FILE, direct_only=True)
        for n, (bi, t, h) in enumerate(rms):
            ok, why = q.gated(f, bi, CONFIG, "no_clobber", False)
            obs.append(Ob("R-ORDER", mkkey("R-ORDER", host, REMOVE_FILE, n, "gated:no_clobber=False"), ok, q.loc_of(t), host,
                          "remove_file of an existing destination entry (%s): %s" % ("+".join(x.split("::")[-1] for x in ws), why),
                          None if ok else dict(block="bb%d" % bi)))
            preds = [r_ for r_ in _gates_of_block(f, bi) if r_[0] == "call"]
            okp = False
            whyp = "no existence predicate guards remove_file"
            for r_ in preds:
                okp, whyp = _is_lstat_probe(fx, r_[1])
                if okp:
                    break
            obs.append(Ob("R-PROBE", mkkey("R-PROBE", host, REMOVE_FILE, n, "clobber-gate-lstat"), okp, q.loc_of(t), host,
                          "existence predicate before remove_file: %s" % whyp, None if okp else dict(preds=[p_[:3] for p_ in preds])))
        for k, (u, v) in enumerate(ro.edge_target(f, CONFIG, "no_clobber", True)):
            obs.append(ro.region_must_fail(fx, f, v, "R-ORDER", mkkey("R-ORDER", host, "no_clobber", k, "must-fail"),
                                           "special file onto existing entry with no_clobber",
                                           loc=q.loc_of(f.blocks[u]["term"])))
    return obs


def _gates_of_block(f, bi):
    """Call-result gates that block bi is control-dependent on (true polarity)."""
    cfg = cfg_of(f)
    out = []
    for b2, b in enumerate(f.blocks):
        t = b["term"]
        if b.get("cleanup") or t["k"] != "switch" or t.get("op_ty") != "bool":
            continue
        for r in q.switch_field_reads(f, b2):
            if r[0] != "call":
                continue
            ok, _ = q.gated(f, bi, "call", r[1], True)
            if ok:
                out.append(r)
    return out


def force_conflict(fx):
    """(d) --no-clobber with --force is rejected before the copy starts."""
    obs = []
    oc = fx.fn("xcp::opts_check")
    m = fx.fn(MAIN)
    if oc is None or m is None:
        return [anchor_ob("R-ORDER", "xcp::opts_check / xcp::main")]
    nc = ro.edge_target(oc, OPTS, "no_clobber", True)
    fr = ro.edge_target(oc, OPTS, "force", True)
    both = [(u, v) for (u, v) in fr if any(u in edge_region(oc, a, b) | {b} for (a, b) in nc)] or \
           [(u, v) for (u, v) in nc if any(u in edge_region(oc, a, b) | {b} for (a, b) in fr)]
    if not both:
        obs.append(anchor_ob("R-ORDER", "opts_check: no branch on no_clobber && force"))
    for k, (u, v) in enumerate(both):
        obs.append(ro.region_must_fail(fx, oc, v, "R-ORDER", mkkey("R-ORDER", oc.path, "no_clobber&&force", k, "must-fail"),
                                       "no_clobber && force", loc=q.loc_of(oc.blocks[u]["term"])))
    obs += ro.must_precede(fx, {"xcp::opts_check"}, {SPAWN, LOAD_DRIVER}, "R-ORDER",
                           "option conflicts are checked before the copy starts", crates=("xcp",))
    return obs


def c08(ctx):
    fx = ctx.fx("A")
    ctx.add(walker_gate(fx))
    ctx.add(special_arm_gate(fx))
    ctx.add(destructive_confined(fx))
    ctx.add(force_conflict(fx))


# --------------------------------------------------------------------------
# C09
# --------------------------------------------------------------------------

def backup_rename(fx):
    obs = []
    reach = driver_reach(fx)
    n = 0
    for f in ro.fns_in_scope(fx, crates=("libxcp",)):
        rn = q.calls_to(f, RENAME)
        if not rn:
            continue
        cfg = cfg_of(f)
        creates = [b for b, t, h in ro.performers(fx, f, {FILE_CREATE, "std::fs::OpenOptions::open"})]
        for (bi, t) in rn:
            n += 1
            # (d) control-dependent on needs_backup
            ok, why = q.gated(f, bi, "call", "libxcp::backup::needs_backup", True)
            obs.append(Ob("R-ORDER", mkkey("R-ORDER", f.path, RENAME, 0, "gated:needs_backup"), ok, q.loc_of(t), f.path,
                          "backup rename: %s" % why, None if ok else dict(block="bb%d" % bi)))
            # (a) new name comes from get_backup_path(to); old name is the destination parameter
            calls, atoms, fields = q.arg_origin_calls(f, t, 1)
            okn = "libxcp::backup::get_backup_path" in calls
            obs.append(Ob("R-TABLE", mkkey("R-TABLE", f.path, RENAME, 0, "backup-name"), okn, q.loc_of(t), f.path,
                          "rename target derives from %s" % sorted(calls), None if okn else dict(calls=sorted(calls))))
            c0, a0, f0 = q.arg_origin_calls(f, t, 0)
            c1 = set()
            for (gb, gt) in q.calls_to(f, "libxcp::backup::get_backup_path"):
                cc, aa, ff = q.arg_origin_calls(f, gt, 0)
                c1 |= set((a.kind, a.what) for a in aa if a.kind == "arg")
            same = set((a.kind, a.what) for a in a0 if a.kind == "arg") & c1
            obs.append(Ob("R-ROLE", mkkey("R-ROLE", f.path, RENAME, 0, "backup-of-dest"), bool(same), q.loc_of(t), f.path,
                          "the renamed file and the file whose backup name is computed are the same parameter: %s" % sorted(same),
                          None if same else dict(rename_from=[repr(a) for a in a0])))
            # (a) on the needs_backup branch the rename precedes the truncating open
            for (u, v) in ro.edge_target(f, "call", "libxcp::backup::needs_backup", True):
                # ... and no (re)creation can happen before the backup decision has been taken
                okp = cfg.passes_through([bi], v, creates) and bool(creates) and \
                    all(cfg.dominates(u, c) for c in creates)
                obs.append(Ob("R-ORDER", mkkey("R-ORDER", f.path, RENAME, 0, "before-create"), okp, q.loc_of(t), f.path,
                              "when a backup is needed the old file is renamed before the destination is (re)created: %s" % okp,
                              None if okp else dict(rename="bb%d" % bi, creates=creates)))
            # the old file is preserved by rename only: no copy/remove of the destination in this function
            bad = ro.performers(fx, f, {REMOVE_FILE, "std::fs::copy", "std::fs::write"})
            obs.append(Ob("R-WHO", mkkey("R-WHO", f.path, "rename-only", 0), not bad, f.loc(), f.path,
                          "old destination preserved by atomic rename only (no copy+delete): %s" % (not bad),
                          dict(found=[q.loc_of(x[1]) for x in bad]) if bad else None))
    if n == 0:
        obs.append(anchor_ob("R-ORDER", "no std::fs::rename in libxcp"))
    return obs


def backup_names_exact(fx):
    """(b) recognition and numbering compare file names as bytes: no lossy/partial OsStr->str conversion of
    file-name data (a conversion of the *extension* only is exact: a backup suffix is ASCII)."""
    obs = []
    n = 0
    scanned = 0
    for f in ro.fns_in_scope(fx, crates=("libxcp",)):
        if not f.path.startswith("libxcp::backup::"):
            continue
        scanned += 1
        for bi, t in q.calls_to(f, LOSSY):
            calls, atoms, fields = q.arg_origin_calls(f, t, 0, table=BACKUP_FLOW)
            name_src = {"std::path::Path::file_name", "std::fs::DirEntry::file_name", "std::fs::DirEntry::path",
                        "std::path::Path::file_stem"}
            from_name = bool(calls & name_src) or (not calls and any(a.kind == "arg" for a in atoms))
            only_ext = calls and calls <= {"std::path::Path::extension"}
            ok = bool(only_ext) and not from_name
            obs.append(Ob("R-TABLE", mkkey("R-TABLE", f.path, q.names(t)[0], n, "lossy-name"), ok, q.loc_of(t), f.path,
                          "%s applied to data from %s" % (q.names(t)[0].split("::")[-1], sorted(calls) or "a parameter"),
                          None if ok else dict(origins=[repr(a) for a in atoms])))
            n += 1
    if scanned < 5:
        obs.append(anchor_ob("R-TABLE", "backup module functions (found %d)" % scanned))
    obs.append(Ob("R-TABLE", mkkey("R-TABLE", "libxcp::backup", "lossy-scan", 0), True, "", "libxcp::backup",
                  "scanned %d backup functions for lossy name conversions" % scanned))
    return obs


BACKUP_FLOW = {
    "core::option::Option::<T>::ok_or": [0],
    "std::path::Path::new": [0],
}


def backup_decision_table(fx):
    """(d) needs_backup: None -> no probe, never a backup; Auto -> existence && has_backup; Numbered -> existence."""
    obs = []
    f = fx.fn("libxcp::backup::needs_backup")
    if f is None:
        return [anchor_ob("R-TABLE", "libxcp::backup::needs_backup")]
    ve = variant_edges(f, CONFIG, "backup")
    if not ve:
        return [anchor_ob("R-TABLE", "needs_backup does not switch on config.backup")]
    sb, m, other = ve[0]
    cg = q.callgraph(fx)
    want = {"None": (False, False), "Auto": (True, True), "Numbered": (True, False)}
    for var, (need_exists, need_has) in want.items():
        if var not in m:
            obs.append(anchor_ob("R-TABLE", "Backup::%s arm" % var))
            continue
        region = edge_region(f, sb, m[var])
        r = cg.reach(f.path, blocks=region)
        has_exists = any(x in r for x in ("libxcp::paths::exists", "libxcp::paths::lexists",
                                          "std::path::Path::symlink_metadata", "std::path::Path::metadata",
                                          "std::path::Path::exists", "std::path::Path::try_exists"))
        has_has = "libxcp::backup::has_backup" in r
        ok = (has_exists == need_exists) and (has_has == need_has)
        obs.append(Ob("R-TABLE", mkkey("R-TABLE", f.path, "Backup::" + var, 0, "arm"), ok, f.loc(), f.path,
                      "Backup::%s arm probes existence=%s, scans for backups=%s (want %s/%s)" % (
                          var, has_exists, has_has, need_exists, need_has),
                      None if ok else dict(region=sorted(region))))
    return obs


def c09(ctx):
    fx = ctx.fx("A")
    ctx.add(backup_rename(fx))
    ctx.add(backup_names_exact(fx))
    ctx.add(backup_decision_table(fx))
    ctx.add(backup_numeric_order(fx))
    ctx.add([o for o in r_err.run(fx, crates=("libxcp",)) if o.fn.startswith("libxcp::backup::")
             or (o.fn == NEW and ("rename" in o.key or "backup" in o.key))])


# --------------------------------------------------------------------------
# C13
# --------------------------------------------------------------------------

def dereference_rules(fx):
    obs = []
    f = fx.fn(WALKER)
    if f is None:
        return [anchor_ob("R-TABLE", WALKER)]
    FOLLOW = "walkdir::WalkDir::follow_links"
    fl = q.calls_to(f, FOLLOW)
    ok = False
    why = "WalkDir builder chain has no follow_links(..): links to directories are not descended under -L"
    wit = None
    for bi, t in fl:
        calls, atoms, fields = q.arg_origin_calls(f, t, 1)
        if (CONFIG, "dereference") in fields:
            ok = True
            why = "follow_links argument derives from config.dereference"
        else:
            why = "follow_links argument does not derive from config.dereference"
            wit = dict(origins=[repr(a) for a in atoms], fields=sorted(map(str, fields)))
    obs.append(Ob("R-TABLE", mkkey("R-TABLE", WALKER, FOLLOW, 0, "deref"), ok,
                  q.loc_of(fl[0][1]) if fl else f.loc(), WALKER, why, wit))
    # the walked iterator is the one built from that chain: into_iter receiver derives from follow_links result
    # canonicalize on the dereference branch
    cn = q.calls_to(f, "std::fs::canonicalize")
    if not cn:
        obs.append(anchor_ob("R-ORDER", "tree_walker calls canonicalize"))
    for n, (bi, t) in enumerate(cn):
        okg, whyg = q.gated(f, bi, CONFIG, "dereference", True)
        obs.append(Ob("R-ORDER", mkkey("R-ORDER", WALKER, "std::fs::canonicalize", n, "gated:dereference=True"), okg,
                      q.loc_of(t), WALKER, "canonicalize: %s" % whyg, None if okg else dict(block="bb%d" % bi)))
    # dispatch metadata is taken from the dereferenced path
    sm = q.calls_to(f, {"std::path::Path::symlink_metadata", "std::fs::symlink_metadata", "std::path::Path::metadata"})
    hit = False
    for n, (bi, t) in enumerate(sm):
        calls, atoms, fields = q.arg_origin_calls(f, t, 0, table=PATH_FLOW)
        if "std::fs::canonicalize" in calls:
            hit = True
    obs.append(Ob("R-TABLE", mkkey("R-TABLE", WALKER, "dispatch-metadata", 0, "from-canonical"), hit, f.loc(), WALKER,
                  "the metadata the kind dispatch uses derives from the canonicalised path: %s" % hit,
                  None if hit else dict(note="dispatching on the link's own metadata would copy links as links under -L")))
    return obs


PATH_FLOW = {
    "std::path::Path::to_path_buf": [0],
    "walkdir::dent::DirEntry::into_path": [0],
}


def c13(ctx):
    fx = ctx.fx("A")
    ctx.add(dereference_rules(fx))
    ctx.add([o for o in r_err.run(fx, crates=("libxcp",)) if o.fn == WALKER and
             ("canonicalize" in o.key or "Iterator::next" in o.key or "symlink_metadata" in o.key)])


# --------------------------------------------------------------------------
# added after the first round of independently seeded changes
# --------------------------------------------------------------------------

INT_TYPES = {"u8", "u16", "u32", "u64", "u128", "usize", "i8", "i16", "i32", "i64", "i128", "isize"}
ORDERING_CALLS = {
    "core::cmp::Ord::max", "core::cmp::Ord::min", "core::cmp::max", "core::cmp::min", "core::cmp::Ord::cmp",
    "core::cmp::PartialOrd::lt", "core::cmp::PartialOrd::le", "core::cmp::PartialOrd::gt", "core::cmp::PartialOrd::ge",
    "core::cmp::PartialOrd::partial_cmp", "core::cmp::max_by", "core::cmp::max_by_key",
    "core::iter::traits::iterator::Iterator::max", "core::iter::traits::iterator::Iterator::min",
    "core::iter::traits::iterator::Iterator::max_by", "core::iter::traits::iterator::Iterator::max_by_key",
    "core::iter::traits::iterator::Iterator::min_by", "core::iter::traits::iterator::Iterator::min_by_key",
    "core::slice::<impl [T]>::sort", "core::slice::<impl [T]>::sort_unstable", "core::slice::<impl [T]>::sort_by",
    "core::slice::<impl [T]>::sort_by_key", "alloc::slice::<impl [T]>::sort", "alloc::slice::<impl [T]>::sort_by",
    "alloc::slice::<impl [T]>::sort_by_key",
}


def _int_like(ty):
    t = ty.replace("&", "").replace("mut ", "").strip()
    for w in ("core::option::Option<", "core::iter::"):
        if t.startswith("core::option::Option<") and t.endswith(">"):
            t = t[len("core::option::Option<"):-1]
    return t in INT_TYPES


def backup_numeric_order(fx):
    """C09: the backup number is chosen by *numeric* order: every ordering operation (max/min/compare/sort) in the
    backup-name functions works on integers, never on names or paths (lexicographic order puts ~9~ after ~10~)."""
    obs = []
    n = 0
    nfn = 0
    for f in ro.fns_in_scope(fx, crates=("libxcp",)):
        if not f.path.startswith("libxcp::backup::"):
            continue
        nfn += 1
        for bi, t in f.calls():
            if q.span_excluded(t["span"]):
                continue
            o = q.names(t)[0]
            if o not in ORDERING_CALLS:
                continue
            tys = list(t.get("arg_tys", []))
            it = t["fn"].get("iter_item")
            if it and "Iterator::" in o:
                tys = [it]
            elif o.startswith("core::iter::"):
                tys = []
            ok = bool(tys) and all(_int_like(x) for x in tys)
            obs.append(Ob("R-TABLE", mkkey("R-TABLE", f.path, o, n, "numeric-order"), ok, q.loc_of(t), f.path,
                          "%s in the backup-number logic orders values of type %s" % (o.split("::")[-1], tys),
                          None if ok else dict(types=tys, note="backup versions must be ordered numerically")))
            n += 1
    if n == 0:
        obs.append(anchor_ob("R-TABLE", "no ordering operation in the backup-number functions (scanned %d)" % nfn))
    return obs


def helpers_always_apply(fx):
    """C10/C18/C11: each attribute helper performs its primitive on every path that returns Ok."""
    from p_thread import ok_blocks
    obs = []
    table = [("libfs::common::copy_permissions", SET_PERMISSIONS), ("libfs::common::copy_timestamps", SET_TIMES),
             ("libfs::common::copy_owner", FCHOWN), ("libfs::common::sync", FSYNC),
             ("libfs::common::allocate_file", FTRUNCATE)]
    for fn_, prim in table:
        f = fx.fn(fn_)
        if f is None:
            obs.append(anchor_ob("R-ORDER", fn_))
            continue
        cfg = cfg_of(f)
        perf = [b for b, t, h in ro.performers(fx, f, prim)]
        oks = ok_blocks(f)
        ok = bool(perf) and bool(oks) and cfg.passes_through(perf, 0, oks)
        obs.append(Ob("R-ORDER", mkkey("R-ORDER", fn_, prim, 0, "ok-requires"), ok, f.loc(), fn_,
                      "%s returns Ok only after %s: %s" % (fn_.split("::")[-1], prim.split("::")[-1], ok),
                      None if ok else dict(performers=perf, ok_blocks=oks)))
    return obs


def extents_forwarded(fx):
    """C01/C11: every extent the kernel reports is appended to the map (the push dominates the latch of the loop
    over the mapped extents): an extent that is skipped is data that is never queued."""
    obs = []
    f = fx.fn("libfs::linux::map_extents")
    if f is None:
        return [anchor_ob("R-ORDER", "libfs::linux::map_extents")]
    cfg = cfg_of(f)
    du = defuse(f)
    pushes = []
    for bi, t in q.calls_to(f, "alloc::vec::Vec::<T, A>::push"):
        l = op_local(t["args"][1])
        atoms, _f, _s = Prov(f, through_agg=False).origins(l)
        if any(a.kind == "agg" and a.what == "libfs::Extent" for a in atoms):
            pushes.append((bi, t))
    if not pushes:
        return [anchor_ob("R-ORDER", "map_extents pushes libfs::Extent values")]
    loops = cfg.loops()
    for n, (bi, t) in enumerate(pushes):
        inner = None
        for h, body in loops.items():
            if bi in body and (inner is None or len(body) < len(inner[1])):
                inner = (h, body)
        if inner is None:
            obs.append(anchor_ob("R-ORDER", "the extent push is inside a loop"))
            continue
        h, body = inner
        latches = [u for (u, v) in cfg.back_edges() if v == h and u in body]
        ok = all(cfg.dominates(bi, u) for u in latches)
        obs.append(Ob("R-ORDER", mkkey("R-ORDER", f.path, "Vec::push(Extent)", n, "every-iteration"), ok, q.loc_of(t), f.path,
                      "every extent returned by FIEMAP is appended to the map (no iteration skips the push): %s" % ok,
                      None if ok else dict(push="bb%d" % bi, latches=latches)))
    return obs
