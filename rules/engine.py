"""Obligations, verdict protocol, evidence and replay files."""
import hashlib
import json
import os
import time

import facts

VERIF = facts.VERIF
if os.environ.get("XCPV_NOEVIDENCE"):
    # self-test runs against scratch copies must not touch the real evidence / replay files
    _tag = hashlib.sha256(os.environ.get("XCPV_REPO", "repo").encode()).hexdigest()[:10]
    OUT = os.path.join(VERIF, "out", "selftest", _tag, "violations")
    EVID = os.path.join(VERIF, "out", "selftest", _tag, "evidence")
else:
    OUT = os.path.join(VERIF, "out", "violations")
    EVID = os.path.join(VERIF, "evidence")


class Ob:
    """One rule instance examined on the current tree.

    key        line-free identity: rule|function|anchor|ordinal|extra
    ok         rule satisfied at this instance
    status     'ok' | 'fail' | 'allowed' (exact-key allow-list hit, with reason)
    trivial    instance is outside any path the property talks about (still checked)
    """
    __slots__ = ("rule", "key", "ok", "loc", "fn", "what", "witness", "trivial", "status", "reason", "cfg", "shape")

    def __init__(self, rule, key, ok, loc="", fn="", what="", witness=None, trivial=False, cfg="A"):
        self.rule, self.key, self.ok = rule, key, ok
        self.loc, self.fn, self.what = loc, fn, what
        self.witness = witness
        self.trivial = trivial
        self.status = "ok" if ok else "fail"
        self.reason = None
        self.cfg = cfg
        self.shape = ""

    def to_json(self):
        d = dict(rule=self.rule, key=self.key, status=self.status, loc=self.loc, fn=self.fn, what=self.what, cfg=self.cfg)
        if self.reason:
            d["reason"] = self.reason
        if self.shape:
            d["shape"] = self.shape
        if self.witness is not None and not self.ok:
            d["witness"] = self.witness
        return d


def ordinal_keys(items):
    """items: list of (fnpath, anchor) in program order -> list of ordinals (per (fn, anchor))."""
    seen = {}
    out = []
    for fnp, a in items:
        k = (fnp, a)
        out.append(seen.get(k, 0))
        seen[k] = seen.get(k, 0) + 1
    return out


def mkkey(rule, fn, anchor, ordinal=0, extra=""):
    return "|".join([rule, fn or "", anchor or "", str(ordinal), extra or ""])


class AnchorMissing(Exception):
    """A rule cannot find the construct it reads: fail closed."""

    def __init__(self, rule, what, searched=""):
        super().__init__("%s: anchor missing: %s %s" % (rule, what, searched))
        self.rule, self.what, self.searched = rule, what, searched


def anchor_ob(rule, what, searched="", cfg="A"):
    return Ob(rule, mkkey("ANCHOR", "", rule + ":" + what), False, "", "",
              "anchor missing / rule would pass vacuously: %s (searched: %s)" % (what, searched), cfg=cfg)


# --------------------------------------------------------------------------

def load_allow():
    p = os.path.join(VERIF, "tables", "allow.json")
    with open(p) as f:
        j = json.load(f)
    out = {}
    for e in j["allow"]:
        out[e["key"]] = e
    return out


def load_known():
    p = os.path.join(VERIF, "known_findings.json")
    if not os.path.exists(p):
        return {}, []
    with open(p) as f:
        j = json.load(f)
    known = {}
    for e in j.get("findings", []):
        known[(e["property"], e["key"])] = e
    return known, j.get("fixed", [])


class Report:
    def __init__(self, prop, tier, seed):
        self.prop, self.tier, self.seed = prop, tier, seed
        self.obs = []
        self.notes = []
        self.controls = []
        self.t0 = time.time()
        self.configs = []
        self.stats = {}
        self.extra = {}

    def add(self, obs):
        self.obs.extend(obs)

    def finish(self, explanation, assumptions, rule_text):
        allow = load_allow()
        known, _fixed = load_known()
        used_allow = []
        violations = []
        known_hits = []
        # de-duplicate by (cfg,key): the same instance may be produced by two clauses
        seen = {}
        for o in self.obs:
            k = (o.cfg, o.key)
            if k in seen:
                if not o.ok and seen[k].ok:
                    seen[k] = o
                continue
            seen[k] = o
        obs = list(seen.values())
        for o in obs:
            if o.ok:
                continue
            a = allow.get(o.key)
            if a is not None and (not a.get("properties") or self.prop in a["properties"]) \
                    and (not a.get("shape") or a["shape"] == o.shape):
                o.status = "allowed"
                o.reason = a["reason"]
                used_allow.append(dict(key=o.key, reason=a["reason"]))
                continue
            kf = known.get((self.prop, o.key))
            if kf is not None:
                o.status = "known"
                known_hits.append(o)
                continue
            violations.append(o)
        os.makedirs(OUT, exist_ok=True)
        for old in os.listdir(OUT):
            if old.startswith(self.prop + "-"):
                try:
                    os.unlink(os.path.join(OUT, old))
                except FileNotFoundError:
                    pass
        lines = []
        for o in known_hits:
            lines.append("KNOWN-FINDING: property=%s %s -- %s (%s)" % (self.prop, o.key, o.what, o.loc))
        for o in violations:
            h = hashlib.sha256((self.prop + o.cfg + o.key).encode()).hexdigest()[:12]
            path = os.path.join(OUT, "%s-%s.json" % (self.prop, h))
            with open(path, "w") as f:
                json.dump(dict(property=self.prop, **o.to_json()), f, indent=1)
            lines.append("VIOLATION property=%s replay=%s" % (self.prop, path))
            lines.append("  %s  %s  [%s] %s" % (o.loc, o.fn, o.rule, o.what))
        nontrivial = set(o.key for o in obs if not o.trivial)
        discharged = sum(1 for o in obs if o.status in ("ok", "allowed"))
        by_rule = {}
        for o in obs:
            r = by_rule.setdefault(o.rule, dict(instances=0, ok=0, allowed=0, known=0, fail=0))
            r["instances"] += 1
            r[o.status if o.status != "ok" else "ok"] += 1
        samples = []
        per_rule_seen = {}
        for o in obs:
            c = per_rule_seen.get(o.rule, 0)
            if c < 3 or o.status != "ok":
                samples.append(o.to_json())
                per_rule_seen[o.rule] = c + 1
        ev = dict(
            property_id=self.prop,
            tier=self.tier,
            seed=self.seed,
            level="other",
            coverage=dict(
                explanation=explanation,
                rule=rule_text,
                obligations=len(obs),
                discharged=discharged,
                evaluations=len(obs),
                distinct_nontrivial=len(nontrivial),
                exhaustive=True,
                samples=samples[:60],
                by_rule=by_rule,
                configurations=self.configs,
                analysed=self.stats,
                allow_list_used=used_allow,
                known_findings_hit=[o.key for o in known_hits],
                controls=self.controls,
                notes=self.notes,
                **self.extra,
            ),
            assumptions=assumptions,
            wall_s=round(time.time() - self.t0, 3),
            violations=len(violations),
        )
        os.makedirs(EVID, exist_ok=True)
        with open(os.path.join(EVID, self.prop + ".json"), "w") as f:
            json.dump(ev, f, indent=1)
        return lines, len(violations), ev
