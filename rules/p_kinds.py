"""C14 (special nodes), C15 (reflink modes), C17 (gitignore wiring), C11 (holes),
C12 (progress stream), C16 (no side effects before validation)."""
from cfg import cfg_of, Prov, op_local, op_place, defuse, place_fields, callee_orig, callee_path
from engine import Ob, mkkey, anchor_ob
import q
import r_order as ro
import r_err
from names import *
from p_gate import edge_region, variant_edges, driver_reach

REFLINK = "libfs::linux::reflink"
FILETYPE = "libfs::FileType"


# --------------------------------------------------------------------------
# helpers
# --------------------------------------------------------------------------

def type_variant_switches(fn, adt):
    """Switches on the discriminant of any place of enum type `adt`: [(switch bb, {variant: target})]"""
    du = defuse(fn)
    out = []
    for bi, b in enumerate(fn.blocks):
        if b.get("cleanup"):
            continue
        for s in b["stmts"]:
            rv = s["rv"]
            if rv["k"] != "discr" or rv.get("adt") != adt:
                continue
            vmap = {v["val"]: v["name"] for v in rv.get("variants", [])}
            for site, how in du.uses.get(s["lhs"]["l"], []):
                if how == "switch" and site.is_term:
                    t = site.node
                    m = {}
                    for v, tb in t["targets"]:
                        m[vmap.get(str(v), str(v))] = tb
                    for n in vmap.values():
                        m.setdefault(n, t["otherwise"])
                    if not r_err._is_drop_elab_switch(fn, site):
                        out.append((site.bb, m))
    return out


def aggs_in(fn, blocks, adt):
    out = []
    for bi in blocks:
        for s in fn.blocks[bi]["stmts"]:
            rv = s["rv"]
            if rv["k"] == "agg" and rv.get("adt") == adt:
                out.append((bi, rv["variant"], s))
    return out


def enum_eq_edges(fn, adt, field, variant):
    """Bool switches whose operand is `place.field == <const variant>` (PartialEq::eq against a promoted
    constant): [(u, v, truth of 'field == variant' on that edge)]"""
    cfg = cfg_of(fn)
    out = []
    proms = fn.raw.get("promoted", [])
    for bi, b in enumerate(fn.blocks):
        t = b["term"]
        if cfg.cleanup[bi] or t["k"] != "switch" or t.get("op_ty") != "bool":
            continue
        reads = q.switch_field_reads(fn, bi)
        if not any(r[0] == adt and r[1] == field for r in reads):
            continue
        # the eq/ne call that defines the switch operand (through plain moves), and its constant side
        ok_const = False
        flip = 0
        du = defuse(fn)
        work, seen = [op_local(t["op"])], set()
        while work:
            l = work.pop()
            if l is None or l in seen:
                continue
            seen.add(l)
            for site, whole in du.defs.get(l, []):
                n = site.node
                if site.is_term:
                    if callee_orig(n) in ("core::cmp::PartialEq::eq", "core::cmp::PartialEq::ne"):
                        flip = 1 if callee_orig(n).endswith("::ne") else 0
                        for a in n["args"]:
                            if variant in _const_variants(fn, a, proms):
                                ok_const = True
                elif n["rv"]["k"] == "use":
                    work.append(op_local(n["rv"]["op"]))
                elif n["rv"]["k"] == "un" and n["rv"]["op"] == "Not":
                    flip ^= 1
                    work.append(op_local(n["rv"]["a"]))
        if not ok_const:
            continue
        explicit = {int(v): tb for v, tb in t["targets"]}
        true_t = t["otherwise"] if 0 in explicit else explicit.get(1)
        false_t = explicit.get(0, t["otherwise"])
        if flip:
            true_t, false_t = false_t, true_t
        out.append((bi, true_t, True))
        out.append((bi, false_t, False))
    return out


def _const_variants(fn, operand, proms):
    """Enum variants a (reference to a) constant operand denotes, through moves/refs and promoteds."""
    du = defuse(fn)
    res = set()
    work = []
    c = operand.get("c")
    if c is not None:
        work.append(("c", c))
    l = op_local(operand)
    if l is not None:
        work.append(("l", l))
    seen = set()
    while work:
        kind, x = work.pop()
        if kind == "c":
            if "promoted" in x and x["promoted"] < len(proms):
                for s in proms[x["promoted"]]:
                    rv = s["rv"]
                    if rv["k"] == "agg" and rv.get("ak") == "adt":
                        res.add(rv["variant"])
            continue
        if x in seen:
            continue
        seen.add(x)
        for site, whole in du.defs.get(x, []):
            if site.is_term:
                continue
            rv = site.node["rv"]
            if rv["k"] == "use":
                if "c" in rv["op"]:
                    work.append(("c", rv["op"]["c"]))
                elif op_local(rv["op"]) is not None:
                    work.append(("l", op_local(rv["op"])))
            elif rv["k"] == "ref":
                work.append(("l", rv["pl"]["l"]))
            elif rv["k"] == "agg" and rv.get("ak") == "adt":
                res.add(rv["variant"])
    return res


def must_fail_avoiding(fx, fn, start, blocked_edges, rule, key, what, loc=""):
    """Like region_must_fail but some edges are assumed not taken (e.g. 'mode != Always')."""
    cfg = cfg_of(fn)
    sig = r_err.signal_blocks(fn)
    r = cfg.reach([start], blocked=set(sig), blocked_edges=blocked_edges) if start not in sig else set()
    bad = [b for b in cfg.returns if b in r]
    ok = not bad
    return Ob(rule, key, ok, loc, fn.path, "%s: %s" % (what, "every path fails" if ok else
                                                       "bb%d (return) reachable without a failure signal" % bad[0]),
              None if ok else dict(start="bb%d" % start, via=sorted(r)[:40]))


# --------------------------------------------------------------------------
# C15
# --------------------------------------------------------------------------

DATA_COPY = {COPY_FILE_RANGE, PWRITE, WRITE, WRITE_ALL, POOL_EXECUTE}
REFLINK_ADT = "libxcp::config::Reflink"


def clone_fns(fx):
    """Workspace functions that issue ioctl(FICLONE) themselves."""
    import p_role
    out = {}
    for f in ro.fns_in_scope(fx):
        for bi, t in q.calls_to(f, IOCTL):
            if p_role._is_ficlone(f, t):
                out.setdefault(f.path, []).append((bi, t))
    return out


def clone_api(fx):
    """libfs's exported functions from which an ioctl(FICLONE) is reachable: a call of one of them is a clone
    request, whatever private helpers issue the ioctl."""
    import views
    direct = clone_fns(fx)
    out = {}
    for g in ro.fns_in_scope(fx, crates=("libfs",)):
        if g.is_closure or not (g.raw.get("exported") or g.raw.get("reachable")):
            continue
        if g.path in direct:
            out[g.path] = views.view(fx, g.path, depth=4)
            continue
        r = q.callgraph(fx).reach(g.path)
        if any(d in r for d in direct):
            out[g.path] = views.view(fx, g.path, depth=4)
    # an exported function that merely wraps another clone function is not the primitive request
    inner = set(p_ for p_ in out if any(p_ in q.callgraph(fx).reach(o_) for o_ in out if o_ != p_))
    return {p_: v for p_, v in out.items() if p_ in inner or not inner} if inner else out


def _mode_local(fn, l, adt, field, depth=0):
    """Is local l a copy of <place>.field (e.g. `let mode = self.config.reflink`)?"""
    if depth > 4:
        return False
    defs = defuse(fn).defs.get(l, [])
    if not defs:
        return False
    for site, whole in defs:
        if site.is_term:
            return False
        rv = site.node["rv"]
        pl = None
        if rv["k"] == "use":
            pl = op_place(rv["op"])
        elif rv["k"] == "ref":
            pl = rv["pl"]
        if pl is None:
            return False
        fl = place_fields(pl)
        if fl and fl[-1] == (adt, field):
            continue
        if not fl and _mode_local(fn, pl["l"], adt, field, depth + 1):
            continue
        return False
    return True


def mode_match_switches(fn, adt, field):
    """Discriminant switches on <place>.field or on a local copy of it: [(switch block, {variant: target})]."""
    du = defuse(fn)
    out = []
    for bi, b in enumerate(fn.blocks):
        if b.get("cleanup"):
            continue
        for s in b["stmts"]:
            rv = s["rv"]
            if rv["k"] != "discr":
                continue
            fl = place_fields(rv["pl"])
            if not ((fl and fl[-1] == (adt, field)) or (not fl and _mode_local(fn, rv["pl"]["l"], adt, field))):
                continue
            vmap = {v["val"]: v["name"] for v in rv.get("variants", [])}
            for site, how in du.uses.get(s["lhs"]["l"], []):
                if how == "switch" and site.is_term:
                    t = site.node
                    m = {}
                    for v, tb in t["targets"]:
                        m[vmap.get(str(v), str(v))] = tb
                    for n in vmap.values():
                        m.setdefault(n, t["otherwise"])
                    out.append((site.bb, m))
    return out


def assume_mode(fn, adt, field, mode, variants, derived=None):
    """Edges that cannot be taken when <config>.field == mode: the other arms of every match on it and the
    contradicting side of every `== Variant` / `!= Variant` test.  `derived` ({T: {mode: variants}}) extends this
    to matches and comparisons on a *decision value* of enum type T that was computed from the mode elsewhere and
    stored (`CopyMethod` chosen once per file from `Config.reflink`): under the assumed mode it can only be one
    of the variants that computation yields.  Returns (blocked edges, number of tests)."""
    cfg = cfg_of(fn)
    blocked = []
    tests = 0
    for sb, m in mode_match_switches(fn, adt, field):
        tests += 1
        keep = m.get(mode)
        for s_ in cfg.succ[sb]:
            if s_ != keep:
                blocked.append((sb, s_))
    for v in variants:
        for (u, tgt, val) in enum_eq_edges(fn, adt, field, v):
            tests += 1
            if (v == mode) != val:
                blocked.append((u, tgt))
    for T, by_mode in (derived or {}).items():
        allowed = by_mode.get(mode)
        if allowed is None:
            continue
        for sb, m in type_variant_switches(fn, T):
            tests += 1
            keep = set(tb for vn, tb in m.items() if vn in allowed)
            for s_ in cfg.succ[sb]:
                if s_ not in keep:
                    blocked.append((sb, s_))
        for (u, tgt, vn, val) in enum_eq_edges_ty(fn, T):
            tests += 1
            # `x == V` is impossible if V is not allowed; `x != V` is impossible if V is the only allowed variant
            if val and vn not in allowed:
                blocked.append((u, tgt))
            if not val and allowed == {vn}:
                blocked.append((u, tgt))
    return blocked, tests


def enum_eq_edges_ty(fn, T):
    """Bool switches fed by `a == <const variant of T>` (derived PartialEq against a promoted constant), whatever
    place a is: [(u, v, variant, truth of 'a == variant' on that edge)]."""
    cfg = cfg_of(fn)
    du = defuse(fn)
    out = []
    proms = fn.raw.get("promoted", [])
    for bi, b in enumerate(fn.blocks):
        t = b["term"]
        if cfg.cleanup[bi] or t["k"] != "switch" or t.get("op_ty") != "bool":
            continue
        flip = 0
        found = None
        work, seen = [op_local(t["op"])], set()
        while work:
            l = work.pop()
            if l is None or l in seen:
                continue
            seen.add(l)
            for site, whole in du.defs.get(l, []):
                n = site.node
                if site.is_term:
                    if callee_orig(n) in ("core::cmp::PartialEq::eq", "core::cmp::PartialEq::ne") and \
                            any(T in (ty_ or "") for ty_ in n.get("arg_tys", [])):
                        if callee_orig(n).endswith("::ne"):
                            flip ^= 1
                        for a in n["args"]:
                            for vn in _const_variants(fn, a, proms):
                                found = vn
                elif n["rv"]["k"] == "use":
                    work.append(op_local(n["rv"]["op"]))
                elif n["rv"]["k"] == "un" and n["rv"]["op"] == "Not":
                    flip ^= 1
                    work.append(op_local(n["rv"]["a"]))
        if found is None:
            continue
        explicit = {int(v): tb for v, tb in t["targets"]}
        true_t = t["otherwise"] if 0 in explicit else explicit.get(1)
        false_t = explicit.get(0, t["otherwise"])
        if flip:
            true_t, false_t = false_t, true_t
        out.append((bi, true_t, found, True))
        out.append((bi, false_t, found, False))
    return out


def derived_decisions(fx, field, mode_adt, _memo={}):
    """{T: {mode: set(variant names)}} for every field-less workspace enum T whose values are *chosen from*
    Config.<field>: T's variants are only ever constructed in functions that branch on the mode, and which variants
    can be constructed depends on it."""
    k = (id(fx), field)
    if k in _memo:
        return _memo[k]
    _memo[k] = {}          # (re-entrancy guard)
    import views
    modes = [v["name"] for v in fx.adts.get(mode_adt, {}).get("variants", [])]
    cands = {}
    for p_, a_ in fx.adts.items():
        if a_.get("kind") == "enum" and p_.split("::")[0] == "libxcp" and p_ != mode_adt and len(a_.get("variants", [])) >= 2 \
                and all(not v_.get("fields") for v_ in a_["variants"]):
            cands[p_] = {}
    out = {}
    if cands:
        readers = set(views._mode_fns(fx, field))
        built_in = {}
        for g in ro.fns_in_scope(fx, crates=("libxcp",)):
            for b in g.blocks:
                if b.get("cleanup"):
                    continue
                for s_ in b["stmts"]:
                    rv = s_["rv"]
                    if rv["k"] == "agg" and rv.get("ak") == "adt" and rv.get("adt") in cands:
                        built_in.setdefault(rv["adt"], set()).add(g.root if g.is_closure else g.path)
        for T, where in built_in.items():
            if not where or not all(w in readers for w in where):
                continue
            by_mode = {m_: set() for m_ in modes}
            ok = True
            for w in sorted(where):
                try:
                    import inline as _inl
                    gv = _inl.inlined(fx, fx.fns[w], 3, stop=()) or fx.fns[w]    # (views.view would ask for the stop set, which asks for this)
                except Exception:
                    gv = fx.fns[w]
                cfgv = cfg_of(gv)
                for m_ in modes:
                    be, tests = assume_mode(gv, CONFIG, field, m_, modes)
                    if not tests:
                        ok = False
                        break
                    r = cfgv.reach([0], blocked_edges=be)
                    for bi in r:
                        for s_ in gv.blocks[bi]["stmts"]:
                            rv = s_["rv"]
                            if rv["k"] == "agg" and rv.get("ak") == "adt" and rv.get("adt") == T:
                                by_mode[m_].add(rv["variant"])
                if not ok:
                    break
            if ok and all(by_mode.values()) and len(set(frozenset(v_) for v_ in by_mode.values())) > 1:
                out[T] = by_mode
    _memo[k] = out
    return out


def c15(ctx):
    """The clone-mode rules, anchored semantically: the *mode function* is whatever libxcp function branches on
    Config.reflink, a *clone request* is a call that reaches an ioctl(FICLONE); the mode function's inlined view
    is analysed once per assumed mode (edges contradicting the assumption removed)."""
    import views
    fx = ctx.fx("A")
    obs = []
    direct = clone_fns(fx)
    cl = clone_api(fx)
    n = 0
    for p_, sites in sorted(direct.items()):
        for bi, t in sites:
            ok = fx.fns[p_].crate == "libfs"
            obs.append(Ob("R-WHO", mkkey("R-WHO", "libfs", "ioctl(FICLONE)", n), ok, q.loc_of(t), p_,
                          "FICLONE issued in %s" % p_, None if ok else dict(note="clone ioctl outside libfs")))
            n += 1
    if n == 0:
        obs.append(anchor_ob("R-WHO", "no ioctl(FICLONE) found"))
    # the mode function: branches on Config.reflink, answers with a bool, and a clone request is reachable from it
    # (the outermost such function if helpers share the work)
    cg = q.callgraph(fx)
    derived = derived_decisions(fx, "reflink", REFLINK_ADT)
    cands = [p_ for p_ in views._mode_fns_ext(fx, "reflink") if fx.fns[p_].crate == "libxcp" and views._returns_bool(fx.fns[p_])
             and any(c_ in cg.reach(p_) for c_ in cl)]
    outer = [p_ for p_ in cands if not any(p_ in cg.reach(o_) for o_ in cands if o_ != p_)]
    modefn = (outer or cands or [views.reflink_mode_fn(fx)])[0]
    f = views.view(fx, modefn, depth=9) if modefn else None
    if f is None:
        obs.append(anchor_ob("R-TABLE", "a libxcp function that branches on Config.reflink"))
        ctx.add(obs)
        return
    LAB = "reflink-mode-fn"
    # who may clone: every call of a clone function lies inside the mode function's view
    insites = set(views.site(f, bi)[1:3] for bi, t in f.calls() if q.names(t)[1] in cl)
    k = 0
    total = 0
    # (callers inside libfs are the providing side -- a backend trait forwarding to the clone function, a
    # convenience `copy_file` -- and have no Config to decide by; the rule is about who *uses* the clone API)
    for g in ro.fns_in_scope(fx, crates=("libxcp", "xcp")):
        for bi, t in g.calls():
            if q.names(t)[1] in cl:
                total += 1
                ok = (t["span"]["file"], t["span"]["line"]) in insites
                obs.append(Ob("R-WHO", mkkey("R-WHO", g.path, "clone-request", k), ok, q.loc_of(t), g.path,
                              "clone requested %s the function that decides by Config.reflink" % ("inside" if ok else "OUTSIDE"),
                              None if ok else dict(mode_fn=modefn)))
                k += 1
    if total == 0:
        obs.append(anchor_ob("R-WHO", "the clone function has no caller"))
    cfg = cfg_of(f)
    sig = r_err.signal_blocks(f)
    variants = [v["name"] for v in fx.adts.get(REFLINK_ADT, {}).get("variants", [])]
    if sorted(variants) != ["Always", "Auto", "Never"]:
        obs.append(anchor_ob("R-TABLE", "Reflink variants Always/Auto/Never (found %s)" % variants))
    clone_blocks = [b_ for b_, t_, h_ in ro.performers(fx, f, set(cl))]
    if not clone_blocks:
        obs.append(anchor_ob("R-TABLE", "the mode function requests a clone"))
    fe = []
    for c in cl:
        fe += ro.edge_target(f, "call", c, False)
    if not fe:
        obs.append(anchor_ob("R-TABLE", "mode function: no branch on the clone result"))
    for mode in ("Never", "Always", "Auto"):
        be, tests = assume_mode(f, CONFIG, "reflink", mode, variants, derived)
        if tests == 0:
            obs.append(anchor_ob("R-TABLE", "mode function tests Config.reflink"))
            continue
        r = cfg.reach([0], blocked_edges=be)
        clones = any(b_ in r for b_ in clone_blocks)
        want = mode != "Never"
        obs.append(Ob("R-TABLE", mkkey("R-TABLE", LAB, "Reflink::" + mode, 0, "clones"), clones == want, f.loc(), modefn,
                      "with reflink=%s a clone request is %s (must be %s)" % (
                          mode.lower(), "reachable" if clones else "unreachable", "reachable" if want else "unreachable"),
                      None if clones == want else dict(assumed=mode)))
        if mode == "Never":
            continue
        # cannot return (non-failing) without having asked for the clone
        r2 = cfg.reach([0], blocked=set(sig) | set(clone_blocks), blocked_edges=be)
        leak = [b_ for b_ in cfg.returns if b_ in r2]
        obs.append(Ob("R-ORDER", mkkey("R-ORDER", LAB, "Reflink::" + mode, 0, "attempt-unless-never"), not leak, f.loc(), modefn,
                      "with reflink=%s the function cannot return Ok without a clone attempt: %s" % (mode.lower(), not leak),
                      None if not leak else dict(returns=leak)))
        for k2, (u, v) in enumerate(fe):
            r3 = cfg.reach([v], blocked=set(sig), blocked_edges=be) if v not in sig else set()
            rets = [b_ for b_ in cfg.returns if b_ in r3]
            if mode == "Always":
                ok = not rets
                obs.append(Ob("R-TABLE", mkkey("R-TABLE", LAB, "always-insists", k2), ok, q.loc_of(f.blocks[u]["term"]), modefn,
                              "reflink=always and the clone did not happen: %s" % (
                                  "every path fails" if ok else "a return is reachable without a failure signal"),
                              None if ok else dict(start="bb%d" % v)))
            else:
                ok = bool(rets)
                obs.append(Ob("R-TABLE", mkkey("R-TABLE", LAB, "auto-falls-back", k2), ok, q.loc_of(f.blocks[u]["term"]), modefn,
                              "reflink=auto and the clone did not happen: a non-failing return exists: %s" % ok,
                              None if ok else dict(start="bb%d" % v)))
    # the clone function asks the kernel on every call
    import p_role as _pr
    for c, g0 in sorted(cl.items()):
        cfg0 = cfg_of(g0)
        io = [b_ for b_, t_ in q.calls_to(g0, IOCTL) if _pr._is_ficlone(g0, t_)]
        r = cfg0.reach([0], blocked=set(io))
        leak = [b_ for b_ in cfg0.returns if b_ in r]
        obs.append(Ob("R-ORDER", mkkey("R-ORDER", "clone-fn", IOCTL, 0, "always-asks-kernel"), not leak, g0.loc(), c,
                      "the clone function asks the kernel on every call (no remembered answer): %s" % (not leak),
                      None if not leak else dict(returns=leak)))
    # clone before any data copy: in every worker role, whatever moves file data in the Copy arm is
    # control-dependent on the mode function having answered `false`; no other role moves file data
    def gated_copies(lab, w, depth, seen, want, acc):
        """Every data-moving call in view w is control-dependent on the mode function's negative answer, here or --
        when the call hands the work to a closure / helper that is not part of the view -- inside that callee."""
        for n2, (bi, t, how) in enumerate(ro.performers(fx, w, DATA_COPY)):
            ok, why = q.gated(w, bi, "call", modefn, want)
            if not ok and how != "direct" and depth < 4:
                subs = [c for c in [q.names(t)[1]] + list((t.get("fn") or {}).get("fnvals", []))
                        if c in fx.fns and c != modefn and ro.performers(fx, fx.fns[c], DATA_COPY) and c not in seen]
                if subs:
                    for c in subs:
                        gated_copies(lab, views.view(fx, c, depth=9), depth + 1, seen | {c}, want, acc)
                    continue
            acc.append(Ob("R-ORDER", mkkey("R-ORDER", lab, q.names(t)[0] or "?", n2, "after-clone-attempt:%d" % depth), ok,
                          q.loc_of(t), lab, "data copy %s: %s" % (ro._nm(t), why), None if ok else dict(block="bb%d" % bi)))
    # which answer of the mode function means "not cloned" is its own convention (`false`, `NotCloned`, or a
    # `needs_copy == true`): every data copy must depend on the *same* answer
    best = None
    for want in (False, True):
        acc = []
        for lab, w in views.workers(fx):
            gated_copies(lab, w, 0, set(), want, acc)
        if best is None or sum(1 for o_ in acc if not o_.ok) < sum(1 for o_ in best if not o_.ok):
            best = acc
    obs += best
    nhosts = len(best)
    if nhosts < 2:
        obs.append(anchor_ob("R-ORDER", "data-copy sites in the worker roles (found %d)" % nhosts))
    wl = set(v.inlined_from for lab, v in views.workers(fx))
    for lab, v in sorted(views.role_views(fx).items()):
        if v.inlined_from in wl or lab in ENTRY_POINTS or lab == MAIN:
            continue
        kinds = __import__("p_thread").thread_roles(fx)[1]
        if kinds.get(lab) == "pool-job":
            continue            # block jobs are queued by a (gated) POOL_EXECUTE of a worker role
        # (a driver's copy() is where the worker roles are started: calling it -- through the trait object or, with
        # static dispatch, directly or through a delegating wrapper -- is not moving data in *this* role)
        def _driver_call(t_):
            o_, p_ = q.names(t_)
            if o_ == DRIVER_COPY or (p_ or "").endswith(" as libxcp::drivers::CopyDriver>::copy"):
                return True
            if p_ in fx.fns and fx.fns[p_].crate == "libxcp":
                r_ = q.callgraph(fx).reach(p_)
                return DRIVER_COPY in r_ or any(y.endswith(" as libxcp::drivers::CopyDriver>::copy") for y in r_)
            return False
        if lab.endswith(" as libxcp::drivers::CopyDriver>::copy"):
            continue
        # (what a spawned closure does is that closure's own role, judged on its own)
        perf = [x for x in ro.performers(fx, v, DATA_COPY - {POOL_EXECUTE})
                if not _driver_call(x[1]) and q.names(x[1])[0] not in (SPAWN, POOL_EXECUTE)]
        obs.append(Ob("R-WHO", mkkey("R-WHO", views.label_of(lab) + ":" + ("drop" if lab == DROP else "role"), "data-copy", 0, "none"),
                      not perf, v.loc(), lab, "role %s moves no file data: %s" % (lab.split("::")[-1], not perf),
                      None if not perf else dict(sites=[q.loc_of(t) for b_, t, h in perf])))
    # errno table of the clone ioctl: evaluated on the clone function's inlined view (the mapping may be a helper)
    for c in sorted(cl):
        g = cl[c]
        cfgg = cfg_of(g)
        sigg = r_err.signal_blocks(g)
        found = set()
        region = set(range(len(g.blocks)))
        for (u, tgt, idents) in r_err.error_test_edges(g, region):
            if tgt is None:
                continue
            r = cfgg.reach([tgt], blocked=set(sigg)) if tgt not in sigg else set()
            if any(x in r for x in cfgg.returns):
                for i in idents:
                    if isinstance(i, int) and i != 0:
                        found.add(65536 - i if 61440 <= i < 65536 else i)      # rustix keeps -errno in a u16
                    elif isinstance(i, str):
                        v_ = r_err.ERRNO.get(i, r_err.ERRNO.get(i[1:] if i.startswith("E") else i))
                        if v_:
                            found.add(v_)
        need = {95, 22, 18}   # EOPNOTSUPP, EINVAL, EXDEV
        ok = need <= found
        obs.append(Ob("R-TABLE", mkkey("R-TABLE", "clone-fn", "errno-unsupported", 0), ok, g.loc(), c,
                      "errnos mapped to 'clone unsupported': %s (must include EOPNOTSUPP=95, EINVAL=22, EXDEV=18)" % sorted(found),
                      None if ok else dict(found=sorted(found))))
    ctx.add(obs)


# --------------------------------------------------------------------------
# C14 / C02(b): FileType -> action table
# --------------------------------------------------------------------------

def filetype_table(fx):
    """Per FileType arm of the walker role: which Operation variant is built, which file-system effects the arm
    itself performs, and whether the entry is queued: every non-failing path from the arm to the next entry (the
    WalkDir `next`) or to the role's Ok return passes a Sender<Operation>::send -- or, for directories, none does.
    The send may sit after the match (a helper that returns the planned Operation), so it is a path property of
    the variant-threaded view, not a "call inside the arm" test."""
    import views, p_thread
    obs = []
    f = views.walker_view(fx)
    if f is None:
        return [anchor_ob("R-TABLE", "a thread role that iterates a WalkDir")]
    sw = type_variant_switches(f, FILETYPE)
    if not sw:
        return [anchor_ob("R-TABLE", "tree_walker does not dispatch on libfs::FileType")]
    cfg = cfg_of(f)
    want = {
        "File": dict(op="Copy", calls=set(), send=True, fail=False),
        "Symlink": dict(op="Link", calls={"std::fs::read_link"}, send=True, fail=False),
        "Dir": dict(op=None, calls={CREATE_DIR_ALL}, send=False, fail=False),
        "Socket": dict(op="Special", calls=set(), send=True, fail=False),
        "Char": dict(op="Special", calls=set(), send=True, fail=False),
        "Fifo": dict(op="Special", calls=set(), send=True, fail=False),
        "Block": dict(op=None, calls=set(), send=False, fail=True),
        "Other": dict(op=None, calls=set(), send=False, fail=True),
    }
    effects = {CREATE_DIR_ALL, "std::fs::read_link", SYMLINK, FILE_CREATE, MKNODAT, REMOVE_FILE, RENAME}
    import p_thread as _pt
    _pt._op_types(fx)
    sends = [bi for bi, t in q.calls_to(f, CB_SEND) if _pt._has_op(" ".join(t.get("arg_tys", [])))]
    heads = [bi for bi, t in f.calls() if (callee_path(t) or "").startswith("<walkdir::") and
             callee_orig(t) == "core::iter::traits::iterator::Iterator::next"]
    exits = heads + p_thread.ok_blocks(f)
    if not sends:
        obs.append(anchor_ob("R-TABLE", "the walker role sends Operations"))
    res = {}
    for sb, m in sw:
        for var, w in want.items():
            if var not in m:
                obs.append(anchor_ob("R-TABLE", "FileType::%s arm" % var))
                continue
            region = edge_region(f, sb, m[var]) | {m[var]}
            ops = sorted(set(v for _, v, _ in aggs_in(f, region, OPERATION)))
            r = q.view_reach(fx, f, region)
            calls = set(x for x in effects if x in r)
            key = mkkey("R-TABLE", WALKER, "FileType::" + var, 0, "action")
            if w["fail"]:
                o = ro.region_must_fail(fx, f, m[var], "R-TABLE", key, "FileType::%s (unsupported kind)" % var, loc=f.loc())
                if o.ok and (ops or calls):
                    o.ok, o.status = False, "fail"
                    o.what += "; but the arm also performs %s %s" % (ops, sorted(calls))
                res.setdefault(key, []).append(o)
                continue
            if w["send"]:
                sent = bool(sends) and cfg.passes_through(sends, m[var], exits)
            else:
                sent = not (set(sends) & cfg.reach([m[var]], blocked=set(heads)))
            ok = ops == ([w["op"]] if w["op"] else []) and calls == w["calls"] and sent
            res.setdefault(key, []).append(Ob(
                "R-TABLE", key, ok, f.loc(), WALKER,
                "FileType::%s -> builds Operation %s, performs %s, %s (want %s, %s, %s)" % (
                    var, ops, sorted(x.split("::")[-1] for x in calls),
                    ("queued on every non-failing path" if sent else "NOT queued on every non-failing path") if w["send"]
                    else ("never queued" if sent else "may be queued"),
                    w["op"], sorted(x.split("::")[-1] for x in w["calls"]), "queued" if w["send"] else "not queued"),
                None if ok else dict(region=sorted(region), sends=sends, exits=exits)))
    for key, lst in res.items():
        bad = [o for o in lst if not o.ok]
        obs.append(bad[0] if bad else lst[0])
    # no Operation variant carries a directory; directories are created by the walker itself
    vs = [v["name"] for v in fx.adts.get(OPERATION, {}).get("variants", [])]
    ok = sorted(vs) == ["Copy", "Link", "Special"]
    obs.append(Ob("R-TABLE", mkkey("R-TABLE", OPERATION, "variants", 0), ok, "", OPERATION,
                  "Operation variants: %s" % vs, None if ok else dict(variants=vs)))
    return obs


def mknod_provenance(fx):
    import views
    obs = []
    n = 0
    hosts = []
    for g in ro.fns_in_scope(fx, crates=("libfs",)):
        if (g.raw.get("exported") or g.raw.get("reachable")) and not g.is_closure and ro.performers(fx, g, MKNODAT):
            hosts.append(views.view(fx, g.path, depth=4))
    seen_sites = set()
    for f in hosts:
        for bi, t in q.calls_to(f, MKNODAT):
            sid = views.site(f, bi)
            if sid in seen_sites:
                continue
            seen_sites.add(sid)
            n += 1
            c4, a4, f4 = q.arg_origin_calls(f, t, 4)
            ok = "std::os::unix::fs::MetadataExt::rdev" in c4 and "std::os::unix::fs::MetadataExt::dev" not in c4
            obs.append(Ob("R-TABLE", mkkey("R-TABLE", f.path, MKNODAT, 0, "dev<-rdev"), ok, q.loc_of(t), f.path,
                          "device number given to mknodat derives from %s" % sorted(x.split("::")[-1] for x in c4),
                          None if ok else dict(origins=sorted(c4))))
            for ai, nm in ((2, "file type"), (3, "mode")):
                c, a, ff = q.arg_origin_calls(f, t, ai, table={"rustix::backend::fs::types::Mode::from_raw_mode": [0],
                                                               "rustix::backend::fs::types::FileType::from_raw_mode": [0]})
                okm = bool(c & {"std::os::unix::fs::PermissionsExt::mode", "std::os::unix::fs::MetadataExt::mode"})
                obs.append(Ob("R-TABLE", mkkey("R-TABLE", f.path, MKNODAT, 0, "arg%d<-mode" % ai), okm, q.loc_of(t), f.path,
                              "%s given to mknodat derives from %s" % (nm, sorted(x.split("::")[-1] for x in c)),
                              None if okm else dict(origins=sorted(c))))
    if n == 0:
        obs.append(anchor_ob("R-TABLE", "no mknodat call in libfs"))
    return obs


def op_regions(fx, w):
    """variant -> region blocks of the worker's dispatch on Operation. `w` is a function path or a view."""
    f = fx.fn(w) if isinstance(w, str) else w
    if f is None:
        return None, {}
    sw = type_variant_switches(f, OPERATION)
    if not sw:
        return f, {}
    # the dispatch is the match whose arms do the work; a `Display`/`Debug` rendering of the operation for a log
    # line (inlined from a hand-written impl) also matches on it, with arms of a few blocks
    return f, op_dispatch(f)[2]


def op_dispatch(f):
    """(switch block, {variant: target}, {variant: region}) of the match on Operation whose arms do the work."""
    best = None
    for sb, m in type_variant_switches(f, OPERATION):
        regs = {v: edge_region(f, sb, tb) | {tb} for v, tb in m.items()}
        size = sum(len(r_) for r_ in regs.values())
        if best is None or size > best[0]:
            best = (size, sb, m, regs)
    return (best[1], best[2], best[3]) if best else (None, {}, {})


# effects compared between the drivers: what is done to the destination, the gates consulted, and the
# error report; read-only probes are not compared (an extra stat in one driver changes nothing)
SIB_EFFECTS = MUTATING | {FILE_OPEN, "libxcp::paths::lexists", "libxcp::paths::exists", "libfs::linux::copy_node", NEW, SEND}


# different primitives, same effect on the destination
EFFECT_CLASS = {WRITE: "write-data", WRITE_ALL: "write-data", PWRITE: "write-data"}


INT_TYS = ("u8", "u16", "u32", "u64", "u128", "usize", "i8", "i16", "i32", "i64", "i128", "isize", "f32", "f64")


def _numeric_fields(fx, adt, _memo={}):
    k = (id(fx), adt)
    if k not in _memo:
        out = set()
        for c in fx.crates.values():
            for a in c.get("adts", []):
                if a["path"] == adt:
                    for v in a.get("variants", []):
                        for i, fl in enumerate(v.get("fields", [])):
                            if fl.get("ty") in INT_TYS:
                                out.add(fl.get("name"))
                                out.add(i)
                                out.add(str(i))
        _memo[k] = out
    return _memo[k]


def sibling_agreement(fx, variants=("Link", "Special", "Copy")):
    """R-SIB(1): the two drivers' handlers of each Operation variant agree on the effects applied, the Config
    flags that guard them, and error handling (every fallible call classified OK by R-ERR)."""
    obs = []
    cg = q.callgraph(fx)
    summ = {}
    errs = {}
    import views
    import engine
    allow = engine.load_allow()
    all_err = {}
    for o in r_err.run(fx, crates=("libxcp",)):
        a = allow.get(o.key)
        if not o.ok and not (a is not None and (not a.get("shape") or a["shape"] == o.shape)):
            all_err[o.loc] = o
    WORKERS = views.workers(fx)
    if len(WORKERS) < 2:
        obs.append(anchor_ob("R-SIB", "two worker roles dispatching on Operation (found %d)" % len(WORKERS)))
    for w, fv in WORKERS:
        f, regs = op_regions(fx, fv)
        if f is None or not regs:
            obs.append(anchor_ob("R-SIB", "%s dispatches on Operation" % w))
            continue
        for v in variants:
            region = regs.get(v)
            if region is None:
                obs.append(anchor_ob("R-SIB", "%s: Operation::%s arm" % (w, v)))
                continue
            r = q.view_reach(fx, f, region)
            eff = set(EFFECT_CLASS.get(x, x) for x in SIB_EFFECTS if x in r)
            if v == "Copy":
                # tabled difference: parfile copies inline (copy_file), parblock queues block jobs
                eff -= {POOL_EXECUTE}
            gates = set()
            for bi in region:
                t = f.blocks[bi]["term"]
                if t["k"] == "switch" and t.get("op_ty") == "bool":
                    for rd in q.switch_field_reads(f, bi):
                        # flags and modes gate effects; sizes (block_size, workers) only shape loops and are not compared
                        if rd[0] == CONFIG and rd[1] not in _numeric_fields(fx, CONFIG):
                            gates.add(rd[1])
            summ[(w, v)] = (eff, gates)
            # error handling inside the arm
            bad = []
            for bi in region:
                t = f.blocks[bi]["term"]
                if t["k"] == "call" and not q.span_excluded(t["span"]):
                    o = all_err.get(q.loc_of(t))
                    if o is not None and not o.ok and o.status != "ok":
                        bad.append(o)
            errs[(w, v)] = bad
    labels = [w for w, fv in WORKERS]
    for v in variants:
        if len(labels) < 2:
            continue
        a, b = summ.get((labels[0], v)), summ.get((labels[1], v))
        if a is None or b is None:
            continue
        ok = a == b
        obs.append(Ob("R-SIB", mkkey("R-SIB", "parfile~parblock", "Operation::" + v, 0, "effects"), ok, "", labels[0],
                      "Operation::%s: parfile %s guards %s | parblock %s guards %s" % (
                          v, sorted(x.split("::")[-1] for x in a[0]), sorted(a[1]),
                          sorted(x.split("::")[-1] for x in b[0]), sorted(b[1])),
                      None if ok else dict(only_parfile=sorted(a[0] - b[0]), only_parblock=sorted(b[0] - a[0]),
                                           guards=(sorted(a[1]), sorted(b[1])))))
        for w in labels:
            bad = errs.get((w, v), [])
            obs.append(Ob("R-SIB", mkkey("R-SIB", w, "Operation::" + v, 0, "errors-handled"), not bad, "", w,
                          "Operation::%s arm of %s: %s" % (v, w.split("::")[-1],
                                                           "every fallible call is propagated/reported" if not bad else
                                                           "unhandled: %s" % [o.what[:80] for o in bad]),
                          dict(unhandled=[o.key for o in bad]) if bad else None))
    return obs


def arms_must_create(fx, variants=("Copy", "Link", "Special")):
    """In both workers, every path through the arm of an Operation variant performs the creating call of that
    kind (truncating open+sizing / symlink / mknod) or fails: an arm cannot silently skip its entry."""
    obs = []
    import views
    # the creating call of each kind (Copy: the truncating open; Special: mknod inside libfs::copy_node)
    creators = {"Copy": {FILE_CREATE}, "Link": {SYMLINK}, "Special": {MKNODAT}}
    for w, fv in views.workers(fx):
        f, regs = op_regions(fx, fv)
        if f is None or not regs:
            obs.append(anchor_ob("R-ORDER", "%s dispatches on Operation" % w))
            continue
        cfg = cfg_of(f)
        sig = r_err.signal_blocks(f)
        sb, m, _regs = op_dispatch(f)
        for v in variants:
            if v not in regs:
                obs.append(anchor_ob("R-ORDER", "%s: Operation::%s arm" % (w, v)))
                continue
            region = regs[v]
            perf = [b_ for b_, t_, h_ in ro.performers(fx, f, creators[v]) if b_ in region]
            r = cfg.reach([m[v]], blocked=set(sig) | set(perf))
            # shared `unreachable` blocks (the `otherwise` of exhaustive switches) are dead ends, not exits
            leaves = sorted(b_ for b_ in r if b_ not in region and (cfg.succ[b_] or b_ in cfg.returns))
            ok = bool(perf) and not leaves
            obs.append(Ob("R-ORDER", mkkey("R-ORDER", w, "Operation::" + v, 0, "creates-or-fails"), ok, f.loc(), w,
                          "%s: every path through the %s arm performs %s or fails: %s" % (
                              w.split("::")[-1], v, "/".join(sorted(x.split("::")[-1] for x in creators[v])), ok),
                          None if ok else dict(performers=perf, leaves_arm_at=leaves[:5])))
    return obs


def region_forbids_view(fx, f, blocks, forbidden, rule, what, label):
    """No call in `blocks` of view f is, or reaches, a forbidden callee."""
    cg = q.callgraph(fx)
    hits = {}
    for bi in blocks:
        t = f.blocks[bi]["term"]
        if t["k"] != "call" or q.span_excluded(t["span"]):
            continue
        o, p_ = q.names(t)
        for nm in (o, p_):
            if nm in forbidden:
                hits[nm] = [q.loc_of(t)]
        cands = [p_] if p_ in fx.fns else []
        cands += [x for x in (t.get("fn") or {}).get("fnvals", []) if x in fx.fns]
        for c in cands:
            r = cg.reach(c)
            for nm in forbidden:
                if nm in r:
                    hits[nm] = r[nm]
    ok = not hits
    return [Ob(rule, mkkey(rule, label, "region_forbids", 0, what), ok, f.loc(), label,
               "%s: %s" % (what, "none of the forbidden callees is reached" if ok else sorted(hits)),
               None if ok else dict(paths=hits))]


def specials_never_opened(fx):
    obs = []
    cg = q.callgraph(fx)
    forb = {FILE_OPEN, FILE_CREATE, READ, "std::fs::read", "std::fs::read_to_string", "std::fs::OpenOptions::open", NEW,
            "std::fs::copy"}
    import views
    for w, fv in views.workers(fx):
        f, regs = op_regions(fx, fv)
        if f is None or "Special" not in regs:
            obs.append(anchor_ob("R-WHO", "%s Special arm" % w))
            continue
        o_ = region_forbids_view(fx, f, regs["Special"], forb, "R-WHO", "special files are recreated, never opened", w)
        obs += o_
    g = fx.fn("libfs::linux::copy_node")
    if g is None:
        obs.append(anchor_ob("R-WHO", "libfs::linux::copy_node"))
    else:
        obs += ro.region_forbids(fx, g, range(len(g.blocks)), forb, "R-WHO", "copy_node never opens its source",
                                 tag="copy_node")
    return obs


def c14(ctx):
    fx = ctx.fx("A")
    ctx.add(filetype_table(fx))
    ctx.add(mknod_provenance(fx))
    ctx.add(sibling_agreement(fx, variants=("Special",)))
    ctx.add(arms_must_create(fx, variants=("Special",)))
    ctx.add(specials_never_opened(fx))
    import p_role
    ctx.add([o for o in p_role.role_obs(fx) if "copy_node" in o.key or "mknodat" in o.key or "Special" in o.key])
    import p_gate
    ctx.add(p_gate.special_arm_gate(fx))


# --------------------------------------------------------------------------
# C17
# --------------------------------------------------------------------------

def c17(ctx):
    fx = ctx.fx("A")
    obs = []
    GB_NEW = "ignore::gitignore::GitignoreBuilder::new"
    GB_ADD = "ignore::gitignore::GitignoreBuilder::add"
    MATCHED = "ignore::gitignore::Gitignore::matched"
    import views
    w = views.walker_view(fx)
    if w is None:
        ctx.add([anchor_ob("R-ORDER", "a thread role that iterates a WalkDir")])
        return
    n = 0
    for bi, t in q.calls_to(w, GB_NEW):
        ok, why = q.gated(w, bi, CONFIG, "gitignore", True)
        obs.append(Ob("R-ORDER", mkkey("R-ORDER", WALKER, GB_NEW, n, "gated:gitignore=True"), ok, q.loc_of(t), WALKER,
                      "matcher built: %s" % why, None if ok else dict(block="bb%d" % bi)))
        n += 1
    if n == 0:
        obs.append(anchor_ob("R-ORDER", "the walker role builds a GitignoreBuilder"))
    # every GitignoreBuilder::new of the workspace is the walker's
    k = 0
    seen_sites = set(views.site(w, bi)[1:3] for bi, t in q.calls_to(w, GB_NEW))
    for f in ro.fns_in_scope(fx, crates=("libxcp",)):
        for bi, t in q.calls_to(f, GB_NEW):
            if (t["span"]["file"], t["span"]["line"]) not in seen_sites:
                obs.append(Ob("R-ORDER", mkkey("R-ORDER", f.path, GB_NEW, k, "outside-walker"), False, q.loc_of(t), f.path,
                              "a gitignore matcher is built outside the walker role (its gating is not checked)"))
                k += 1
    # without the option nothing is filtered: the `false` branch builds no matcher
    for k, (u, v) in enumerate(ro.edge_target(w, CONFIG, "gitignore", False)):
        region = edge_region(w, u, v) | {v}
        r = q.view_reach(fx, w, region)
        built = sorted(x for x in r if x.startswith("ignore::gitignore::GitignoreBuilder"))
        ok = not built
        obs.append(Ob("R-ORDER", mkkey("R-ORDER", WALKER, "gitignore=False", k, "no-matcher"), ok, w.loc(), WALKER,
                      "with gitignore off no matcher is built: %s" % ok, None if ok else dict(reach=built[:10])))
    # roles: rooted at, and reading .gitignore of, the source root
    import p_role
    ro_obs = [o for o in p_role.role_obs(fx) if "GitignoreBuilder" in o.key or "parse_ignore" in o.key]
    if len(ro_obs) < 1:
        obs.append(anchor_ob("R-ROLE", "gitignore role sinks (found %d)" % len(ro_obs)))
    obs += ro_obs
    # pruning with filter_entry, and the closure consults the matcher
    fe = q.calls_to(w, "walkdir::IntoIter::filter_entry")
    okf = False
    for bi, t in fe:
        for fv in t["fn"].get("fnvals", []):
            if MATCHED in q.callgraph(fx).reach(fv):
                okf = True
    obs.append(Ob("R-TABLE", mkkey("R-TABLE", WALKER, "walkdir::IntoIter::filter_entry", 0, "prunes"), okf,
                  q.loc_of(fe[0][1]) if fe else "", WALKER,
                  "the walk is pruned with filter_entry(closure consulting Gitignore::matched): %s" % okf,
                  None if okf else dict(note="Iterator::filter would still descend into ignored directories")))
    # the walked iterator is the filtered one
    nx = [t for bi, t in w.calls() if (q.names(t)[1] or "").startswith("<walkdir::FilterEntry<")]
    plain = [t for bi, t in w.calls() if (q.names(t)[1] or "").startswith("<walkdir::IntoIter as") and
             q.names(t)[0] == "core::iter::traits::iterator::Iterator::next"]
    obs.append(Ob("R-TABLE", mkkey("R-TABLE", WALKER, "FilterEntry::next", 0, "iterated"), bool(nx) and not plain, "", WALKER,
                  "the walker iterates the FilterEntry adaptor (and no unfiltered walk): %s" % (bool(nx) and not plain)))
    # is_dir argument of matched: the entry's own type
    m = 0
    for f in ro.fns_in_scope(fx, crates=("libxcp",)):
        for bi, t in q.calls_to(f, MATCHED):
            m += 1
            c, a, ff = q.arg_origin_calls(f, t, 2, table={"std::fs::FileType::is_dir": [0]})
            follows = sorted(c & LINK_FOLLOWING)
            own = bool(c & {"walkdir::dent::DirEntry::file_type", "std::fs::DirEntry::file_type"})
            ok = own and not follows
            obs.append(Ob("R-PROBE", mkkey("R-PROBE", f.path, MATCHED, 0, "is_dir-lstat"), ok, q.loc_of(t), f.path,
                          "is_dir given to Gitignore::matched derives from %s" % sorted(x.split("::")[-1] for x in c),
                          None if ok else dict(origins=sorted(c))))
            c1, a1, f1 = q.arg_origin_calls(f, t, 1)
            # the path as walked (root-prefixed exactly as the matcher's root was given): a path re-based by the
            # caller (strip_prefix, file_name, canonicalize) is stripped of the root a second time by the matcher
            okp = c1 == {"walkdir::dent::DirEntry::path"}
            obs.append(Ob("R-TABLE", mkkey("R-TABLE", f.path, MATCHED, 0, "path<-entry"), okp, q.loc_of(t), f.path,
                          "path given to matched is the walked entry's path, unchanged: %s (derives from %s)" % (
                              okp, sorted(x.split("::")[-1] for x in c1)), None if okp else dict(origins=sorted(c1))))
    if m == 0:
        obs.append(anchor_ob("R-PROBE", "no Gitignore::matched call"))
    import p_ignore
    obs += p_ignore.root_never_matched(fx)
    obs += p_ignore.verdict_readback(fx)
    ctx.add(obs)


# --------------------------------------------------------------------------
# C11
# --------------------------------------------------------------------------

ALLOCATING = {"rustix::fs::fd::fallocate", "libc::unix::linux_like::linux::fallocate", "libc::unix::posix_fallocate",
              WRITE, WRITE_ALL, PWRITE, COPY_FILE_RANGE, "std::fs::File::set_len|alloc"}


def c11(ctx):
    fx = ctx.fx("A")
    obs = []
    g = fx.fn("libfs::common::allocate_file")
    if g is None:
        obs.append(anchor_ob("R-WHO", "libfs::common::allocate_file"))
    else:
        obs += ro.region_forbids(fx, g, range(len(g.blocks)), ALLOCATING, "R-WHO",
                                 "pre-sizing must not allocate or write", tag="allocate_file")
        has = bool(ro.performers(fx, g, FTRUNCATE))
        obs.append(Ob("R-WHO", mkkey("R-WHO", g.path, FTRUNCATE, 0, "presize"), has, g.loc(), g.path,
                      "allocate_file sizes the destination with ftruncate: %s" % has))
    obs += truncate_then_size(fx)
    import p_gate as _pg
    obs += _pg.extents_forwarded(fx)
    obs += [o for o in _pg.helpers_always_apply(fx) if "allocate_file" in o.key]
    obs += sparse_dispatch(fx)
    obs += parblock_ranges(fx)
    import p_range
    obs += p_range.jobs_within_range(fx)
    ctx.rep.extra["range_arithmetic"] = dict(decided=p_range.jobs_within_range.decided, undecided=p_range.jobs_within_range.notes)
    ctx.add(obs)


PS = "libfs::linux::probably_sparse"
ME = "libfs::linux::map_extents"
NSS = "libfs::linux::next_sparse_segments"
LIBFS_COPY_BYTES = {"libfs::linux::copy_file_bytes", "libfs::fallback::copy_file_bytes"}


def copy_hosts(fx):
    """[(label, view)]: the worker views and, below them, the views of the closures (or not-inlined libxcp helpers)
    a worker hands the data copy to."""
    import views
    out = []
    seen = set()
    stop = views.stop_set(fx)

    def rec(lab, v, d):
        out.append((lab, v))
        if d >= 3:
            return
        for bi, t, how in ro.performers(fx, v, DATA_COPY):
            if how == "direct":
                continue
            for c in [q.names(t)[1]] + list((t.get("fn") or {}).get("fnvals", [])):
                g = fx.fns.get(c)
                if g is None or c in seen or c in stop or g.crate != "libxcp":
                    continue
                seen.add(c)
                rec(lab + "/" + ("closure" if g.is_closure else "helper"), views.view(fx, c, depth=9), d + 1)
    for lab, w in views.workers(fx):
        rec(lab, w, 0)
    return out


def sparse_dispatch(fx):
    """Cursor-based copies (libfs copy_file_bytes) in the workers' code: a copy whose length derives from the file
    size (whole file) runs only when the source is not probably-sparse; a copy whose length derives from
    next_sparse_segments only when it is."""
    obs = []
    kinds = {"whole": 0, "segments": 0}
    for lab, v in copy_hosts(fx):
        n = 0
        for bi, t in q.calls_to(v, LIBFS_COPY_BYTES):
            c, a, ff = q.arg_origin_calls(v, t, 2)
            kind = "segments" if NSS in c else ("whole" if "std::fs::Metadata::len" in c else "other")
            if kind == "other":
                obs.append(Ob("R-TABLE", mkkey("R-TABLE", lab, "copy_file_bytes", n, "len-origin"), False, q.loc_of(t), lab,
                              "length given to the cursor-based copier derives from neither the file size nor the segment walk: %s"
                              % sorted(x.split("::")[-1] for x in c), dict(origins=sorted(c))))
                n += 1
                continue
            kinds[kind] += 1
            want = kind == "segments"
            ok, why = q.gated(v, bi, "call", PS, want)
            obs.append(Ob("R-ORDER", mkkey("R-ORDER", lab, "copy_file_bytes", n, "%s:gated:probably_sparse=%s" % (kind, want)), ok,
                          q.loc_of(t), lab, "%s copy: %s" % ("segment-wise" if want else "whole-file", why),
                          None if ok else dict(block="bb%d" % bi)))
            if kind == "segments" and "std::fs::Metadata::len" in c:
                obs.append(Ob("R-TABLE", mkkey("R-TABLE", lab, "copy_file_bytes", n, "len<-segments-only"), False, q.loc_of(t), lab,
                              "length copied per segment also derives from the file size", dict(origins=sorted(c))))
            n += 1
    if not kinds["whole"] or not kinds["segments"]:
        obs.append(anchor_ob("R-ORDER", "whole-file and segment-wise cursor copies in the worker roles (found %s)" % kinds))
    return obs


def parblock_ranges(fx):
    """The role that queues block jobs: a whole-file range (`0..len`) is built only when the source is not
    probably-sparse or has no extent map, and in both of those cases it is built on every non-failing path."""
    import views, p_thread
    obs = []
    # the worker role from which block jobs are queued (directly, or through closures of iterator pipelines)
    hosts = [(lab, v) for lab, v in views.workers(fx) if ro.performers(fx, v, POOL_EXECUTE)]
    if not hosts:
        return [anchor_ob("R-ORDER", "a worker role that queues block jobs on the pool")]
    for lab, v in hosts:
        cfg = cfg_of(v)
        du = defuse(v)
        execs = q.calls_to(v, POOL_EXECUTE)
        exec_closures = set(fv for bi, t in execs for fv in t["fn"].get("fnvals", []))
        # closures (of lazy adaptors) inside which the jobs are queued count as the place the range flows to
        for bi, t, how in ro.performers(fx, v, POOL_EXECUTE):
            if how != "direct":
                exec_closures |= set(t["fn"].get("fnvals", []))
        # whole-file ranges: Range{const 0, x} aggregates that flow into a block job
        W = []
        ext_ranges = 0
        for bi, b in enumerate(v.blocks):
            if b.get("cleanup"):
                continue
            for s_ in b["stmts"]:
                rv = s_["rv"]
                if rv["k"] == "agg" and rv.get("adt") == "core::ops::range::Range" and len(rv["fields"]) == 2 \
                        and "u64" in v.locals[s_["lhs"]["l"]]["ty"]:
                    c0 = rv["fields"][0].get("c")
                    tn, _vc = p_thread.taint_from(v, [s_["lhs"]["l"]], through_bin=True)
                    flows = False
                    for b2 in v.blocks:
                        for s2 in b2["stmts"]:
                            if s2["rv"]["k"] == "agg" and s2["rv"].get("ak") == "closure" and s2["rv"].get("closure") in exec_closures \
                                    and any(op_local(o_) in tn for o_ in s2["rv"]["fields"]):
                                flows = True
                    if not flows:
                        # arithmetic on the range ends (len, offsets) breaks plain taint: accept a flow into the
                        # function that executes the jobs
                        for b3, t3 in v.calls():
                            if any(op_local(a_) in tn for a_ in t3["args"]) and (
                                    POOL_EXECUTE in q.view_reach(fx, v, [b3])):
                                flows = True
                        for b3, t3 in execs:
                            pass
                    l1 = op_local(rv["fields"][1])
                    size_end = False
                    if l1 is not None:
                        at1, _f1, _s1 = Prov(v, through_bin=False).origins(l1)
                        size_end = any(a_.kind == "call" and a_.what == "std::fs::Metadata::len" for a_ in at1)
                    if c0 is not None and c0.get("v") == 0 and flows and size_end:
                        W.append((bi, s_, flows))
        Wb = [bi for bi, s_, fl in W]
        if not W:
            obs.append(anchor_ob("R-TABLE", "%s builds a whole-file range 0..len" % lab))
            continue
        none_edges = []
        for bi, b in enumerate(v.blocks):
            if b.get("cleanup"):
                continue
            for s_ in b["stmts"]:
                rv = s_["rv"]
                if rv["k"] == "discr" and rv.get("adt") == "core::option::Option":
                    atoms, _f, _s = Prov(v).origins(rv["pl"]["l"])
                    if any(a_.kind == "call" and a_.what == ME for a_ in atoms):
                        for site, how in du.uses.get(s_["lhs"]["l"], []):
                            if how == "switch" and site.is_term and not r_err._is_drop_elab_switch(v, site):
                                t = site.node
                                explicit = {int(x): tb for x, tb in t["targets"]}
                                none_edges.append((site.bb, explicit.get(0, t["otherwise"])))
        ps_false = ro.edge_target(v, "call", PS, False)
        if not ps_false:
            obs.append(anchor_ob("R-ORDER", "%s branches on probably_sparse" % lab))
        if not none_edges:
            obs.append(anchor_ob("R-ORDER", "%s matches the Option returned by map_extents" % lab))
        # (i) only then
        r = cfg.reach([0], blocked_edges=list(ps_false) + none_edges)
        for k, (bi, s_, fl) in enumerate(W):
            ok = bi not in r
            obs.append(Ob("R-ORDER", mkkey("R-ORDER", lab, "whole-file-queue", k, "not-sparse-or-no-extents"), ok,
                          "%s:%d" % (s_["span"]["file"], s_["span"]["line"]), lab,
                          "the whole-file range is built only when the file is not sparse or no extent map is available: %s" % ok,
                          None if ok else dict(block="bb%d" % bi)))
        # (ii) and then always
        heads = [bi for bi, t in v.calls() if callee_orig(t) == "core::iter::traits::iterator::Iterator::next" and
                 "IntoIter<" + OPERATION in " ".join(t.get("arg_tys", []))]
        exits = heads + p_thread.ok_blocks(v)
        for k, (u, tgt) in enumerate(none_edges):
            okn = cfg.passes_through(Wb, tgt, exits)
            obs.append(Ob("R-ORDER", mkkey("R-ORDER", lab, "map_extents==None", k, "no-extents-whole-file"), okn,
                          q.loc_of(v.blocks[u]["term"]), lab,
                          "when extent mapping is unsupported (None) the whole file is queued: %s" % okn,
                          None if okn else dict(none_edge=(u, tgt))))
        for k, (u, tgt) in enumerate(ps_false):
            okn = cfg.passes_through(Wb, tgt, exits)
            obs.append(Ob("R-ORDER", mkkey("R-ORDER", lab, "probably_sparse==false", k, "whole-file"), okn,
                          q.loc_of(v.blocks[u]["term"]), lab,
                          "when the source is not sparse the whole file is queued: %s" % okn,
                          None if okn else dict(edge=(u, tgt))))
    return obs


def truncate_then_size(fx):
    """C01(a)/C11(b): every Ok(handle) of CopyHandle::new has passed a truncating open and a pre-sizing
    truncate (directly or through helpers); the descriptor sized is a destination descriptor and the length a
    source quantity (R-ROLE, inter-procedural); no OpenOptions chain exists, so File::create is the only way a
    destination descriptor can be made."""
    import p_role, views
    obs = []
    # evaluated wherever a worker role builds a CopyHandle (constructor, builder chain, helper: all inlined)
    hv = views.handle_ctor_views(fx)
    if not hv:
        return [anchor_ob("R-ORDER", "a worker role that builds a CopyHandle")]
    seen_sites = set()
    for lab0, f in hv:
        lab = "worker:" + views.label_of(lab0)
        cfg = cfg_of(f)
        creates = [b_ for b_, t, h in ro.performers(fx, f, FILE_CREATE)]
        sizes = [b_ for b_, t, h in ro.performers(fx, f, FTRUNCATE)]
        aggs = []
        for bi, b in enumerate(f.blocks):
            if b.get("cleanup"):
                continue
            for s_ in b["stmts"]:
                if s_["rv"]["k"] == "agg" and s_["rv"].get("adt") == COPYHANDLE:
                    aggs.append(bi)
                    seen_sites.add((s_["span"]["file"], s_["span"]["line"]))
        for what, blocks, nm in (("a truncating File::create", creates, FILE_CREATE), ("the pre-sizing ftruncate", sizes, FTRUNCATE)):
            ok = bool(blocks) and all(cfg.set_dominates(blocks, o) for o in aggs)
            obs.append(Ob("R-ORDER", mkkey("R-ORDER", lab, nm, 0, "before-handle"), ok, f.loc(), lab,
                          "every CopyHandle is built after %s: %s" % (what, ok),
                          None if ok else dict(performers=blocks, handle_blocks=aggs)))
        # the sizing follows the open on every path (the open truncates, the ftruncate then extends)
        ok = bool(creates) and bool(sizes) and all(cfg.set_dominates(creates, s_) for s_ in sizes if any(
            a_ in cfg.reach([s_]) for a_ in aggs))
        obs.append(Ob("R-ORDER", mkkey("R-ORDER", lab, FTRUNCATE, 0, "after-create"), ok, f.loc(), lab,
                      "the destination is sized after it was opened/truncated: %s" % ok))
    # every construction site of the handle in libxcp is one of those
    k_ = 0
    for g in ro.fns_in_scope(fx, crates=("libxcp",)):
        for b in g.blocks:
            if b.get("cleanup"):
                continue
            for s_ in b["stmts"]:
                if s_["rv"]["k"] == "agg" and s_["rv"].get("adt") == COPYHANDLE and \
                        (s_["span"]["file"], s_["span"]["line"]) not in seen_sites:
                    obs.append(Ob("R-WHO", mkkey("R-WHO", g.path, "construct CopyHandle", k_, "outside-workers"), False,
                                  "%s:%d" % (s_["span"]["file"], s_["span"]["line"]), g.path,
                                  "a CopyHandle is built outside the workers' per-operation code (open/size ordering not checked)"))
                    k_ += 1
    # roles of the sizing call and of the handle's fields (inter-procedural)
    robs = [o for o in p_role.role_obs(fx) if ("allocate_file" in o.key or "ftruncate" in o.key or "CopyHandle::CopyHandle" in o.key
                                               or FILE_CREATE in o.key) and not o.trivial]
    if len(robs) < 5:
        obs.append(anchor_ob("R-ROLE", "sizing/handle role sinks (found %d)" % len(robs)))
    obs += robs
    # OpenOptions would hide the open mode from the callee identity
    import p_gate
    obs += p_gate.sources_read_only(fx)
    return obs


def _meta_origin(f, t):
    """Calls from which the receiver of Metadata::len (feeding arg 1 of t) derives."""
    out = set()
    l = op_local(t["args"][1])
    pv = Prov(f)
    atoms, _f, seen = pv.origins(l)
    for a in atoms:
        if a.kind == "call" and a.what == "std::fs::Metadata::len":
            c, aa, ff = q.arg_origin_calls(f, a.site.node, 0, table={"std::fs::File::metadata": [0]})
            out |= c
    return out


# --------------------------------------------------------------------------
# C12
# --------------------------------------------------------------------------

def _update_sends(fx, f, variant):
    """send calls in f whose update argument is a StatusUpdate::<variant> aggregate (possibly handed on through
    an inlined helper's parameter): [(bi, term, agg stmt)]"""
    out = []
    for bi, t in q.calls_to(f, SEND):
        l = op_local(t["args"][1]) if len(t["args"]) > 1 else None
        if l is None:
            continue
        atoms, _f, _s = Prov(f, through_agg=False).origins(l)
        for a in atoms:
            if a.kind == "agg" and a.what == STATUS_UPDATE and a.site is not None and not a.site.is_term \
                    and a.site.node["rv"].get("variant") == variant:
                out.append((bi, t, a.site.node))
    return out


def c12(ctx):
    fx = ctx.fx("A")
    obs = []
    import views
    w = views.walker_view(fx)
    if w is None:
        ctx.add([anchor_ob("R-ORDER", "a thread role that iterates a WalkDir")])
        return
    cfg = cfg_of(w)
    sizes = _update_sends(fx, w, "Size")
    # every Size construction in the workspace (source sites), and the ones the walker role executes
    allsize = set()
    for f in ro.fns_in_scope(fx, crates=("libxcp", "libfs")):
        for bi, b in enumerate(f.blocks):
            if b.get("cleanup"):
                continue
            for s in b["stmts"]:
                if s["rv"]["k"] == "agg" and s["rv"].get("adt") == STATUS_UPDATE and s["rv"]["variant"] == "Size":
                    allsize.add((s["span"]["file"], s["span"]["line"], s["span"].get("col")))
    insize = set((sa["span"]["file"], sa["span"]["line"], sa["span"].get("col")) for sb, st, sa in sizes)
    ok1 = len(allsize) == 1 and insize == allsize
    obs.append(Ob("R-ORDER", mkkey("R-ORDER", "libxcp", "StatusUpdate::Size", 0, "single-site"), ok1, w.loc(), WALKER,
                  "StatusUpdate::Size is built at exactly one place, and the walker role sends it: %s" % sorted(allsize),
                  None if ok1 else dict(sites=sorted(allsize), in_walker=sorted(insize))))
    copies = []
    for bi, b in enumerate(w.blocks):
        if b.get("cleanup"):
            continue
        for s_ in b["stmts"]:
            if s_["rv"]["k"] == "agg" and s_["rv"].get("adt") == OPERATION and s_["rv"]["variant"] == "Copy":
                copies.append((bi, s_))
    if not copies or not sizes:
        obs.append(anchor_ob("R-ORDER", "walker sends Size and builds Operation::Copy"))
    for n, (cb, cs) in enumerate(copies):
        cloc = "%s:%d" % (cs["span"]["file"], cs["span"]["line"])
        ok = bool(sizes) and cfg.set_dominates([sb for sb, st, sa in sizes if sb != cb], cb)
        obs.append(Ob("R-ORDER", mkkey("R-ORDER", WALKER, "Size-before-Copy", n), ok, cloc, WALKER,
                      "the Size update is sent before the Copy operation is built (and so before it is queued): %s" % ok,
                      None if ok else dict(copy="bb%d" % cb, sizes=["bb%d" % x[0] for x in sizes])))
        # not in a loop between them: one Size per Copy
        for sb, st, sa in sizes:
            between_loop = cfg.can_reach(sb, sb, blocked=[cb])
            obs.append(Ob("R-ORDER", mkkey("R-ORDER", WALKER, "Size-once-per-Copy", n), not between_loop, q.loc_of(st), WALKER,
                          "no path repeats the Size update without building the Copy: %s" % (not between_loop)))
    for sb, st, sa in sizes:
        l = op_local(sa["rv"]["fields"][0])
        atoms, _f, _s = Prov(w).origins(l)
        calls = set(a.what for a in atoms if a.kind == "call")
        # same metadata as the dispatch
        lens = [a for a in atoms if a.kind == "call" and a.what == "std::fs::Metadata::len"]
        same = False
        for a in lens:
            c0, a0, f0 = q.arg_origin_calls(w, a.site.node, 0)
            for bi, t in q.calls_to(w, "std::fs::Metadata::file_type"):
                c1, a1, f1 = q.arg_origin_calls(w, t, 0)
                if c0 and c0 == c1:
                    same = True
        ok = calls == {"std::fs::Metadata::len"} and same
        obs.append(Ob("R-TABLE", mkkey("R-TABLE", WALKER, "Size-operand", 0), ok, q.loc_of(st), WALKER,
                      "announced size = len() of the metadata the kind dispatch used: %s (%s)" % (ok, sorted(calls)),
                      None if ok else dict(origins=[repr(a) for a in atoms])))
    # (b) Copied(x): x is only ever the Ok count of a libfs copier
    COUNT_SOURCES = {"libfs::linux::copy_file_bytes", "libfs::linux::copy_file_offset",
                     "libfs::fallback::copy_file_bytes", "libfs::fallback::copy_file_offset"}
    ncop = 0
    # evaluated on the role/closure views (a `copied(n)` convenience method, a helper or a combinator closure is
    # inlined there); a construction site is judged where its function is inlined into its caller if such a view
    # exists, else in its own function
    cand = [(lab, v_, True) for lab, v_ in sorted(views.all_views(fx).items())]
    cand += [(f.path, f, False) for f in ro.fns_in_scope(fx, crates=("libxcp",))]
    per_site = {}
    for lab, f, is_view in cand:
        if lab.startswith("<libxcp::feedback::"):
            continue
        root = getattr(f, "inlined_from", None) or f.path
        for bi, b in enumerate(f.blocks):
            if b.get("cleanup"):
                continue
            for s in b["stmts"]:
                rv = s["rv"]
                if rv["k"] == "agg" and rv.get("adt") == STATUS_UPDATE and rv["variant"] == "Copied":
                    sid = (s["span"]["file"], s["span"]["line"], s["span"].get("col"))
                    l = op_local(rv["fields"][0])
                    const = "c" in rv["fields"][0]
                    atoms = []
                    if l is not None:
                        atoms, _f, _s = Prov(f, through_bin=True).origins(l)
                    calls = set(a.what for a in atoms if a.kind == "call")
                    other = [a for a in atoms if a.kind in ("arg", "const", "agg")]
                    ok = bool(calls) and calls <= COUNT_SOURCES and not other and not const
                    inl = is_view and b.get("origin", root) != root
                    per_site.setdefault(sid, []).append((inl, ok, lab, calls, other, atoms))
    for k, (sid, evs) in enumerate(sorted(per_site.items())):
        ncop += 1
        use = [e for e in evs if e[0]] or evs
        ok = all(e[1] for e in use)
        bad = [e for e in use if not e[1]]
        inl, _ok, lab, calls, other, atoms = (bad or use)[0]
        obs.append(Ob("R-TABLE", mkkey("R-TABLE", "libxcp", "StatusUpdate::Copied", k, "operand"), ok,
                      "%s:%d" % (sid[0], sid[1]), lab,
                      "Copied(x): x derives from %s%s" % (sorted(c.split("::")[-1] for c in calls),
                                                           "" if not other else " and %s" % [repr(a) for a in other][:3]),
                      None if ok else dict(origins=[repr(a) for a in atoms])))
    if ncop < 1:
        obs.append(anchor_ob("R-TABLE", "StatusUpdate::Copied construction sites (found %d)" % ncop))
    ctx.add(obs)
    # (d) incomplete => Error update or Err: error discipline in libxcp (incl. pool jobs)
    ctx.add([o for o in r_err.run(fx, crates=("libxcp",))])
    # (c) channel closure: updater protocol
    import p_thread
    ctx.add(p_thread.updater_protocol(fx))


# --------------------------------------------------------------------------
# C16
# --------------------------------------------------------------------------

def c16(ctx):
    """Evaluated on main's inlined view: the validation may live in any helper."""
    import views, p_gate
    fx = ctx.fx("A")
    obs = []
    m = views.main_view(fx)
    if m is None:
        ctx.add([anchor_ob("R-WHO", MAIN)])
        return
    cfg = cfg_of(m)
    sp = q.calls_to(m, SPAWN)
    spawn_sites = set(views.site(m, bi)[1:] for bi, t in sp)
    if len(spawn_sites) != 1:
        ctx.add([anchor_ob("R-WHO", "main starts the copy with exactly one thread::spawn (found %d)" % len(spawn_sites))])
        return
    sbs = [bi for bi, t in sp]
    # the spawned closure is the one that runs the driver
    def _drives(fv):
        r_ = q.callgraph(fx).reach(fv)
        return DRIVER_COPY in r_ or any(x.endswith(" as libxcp::drivers::CopyDriver>::copy") for x in r_)
    runs = all(any(_drives(fv) for fv in t["fn"].get("fnvals", [])) for bi, t in sp)
    obs.append(Ob("R-WHO", mkkey("R-WHO", MAIN, SPAWN, 0, "runs-driver"), runs, q.loc_of(sp[0][1]), MAIN,
                  "the spawned closure is what runs CopyDriver::copy: %s" % runs))
    prefix = [b for b in cfg.reachable() if not cfg.set_dominates(sbs, b)]
    forb = set(MUTATING) | {DRIVER_COPY}
    obs += region_forbids_view(fx, m, prefix, forb, "R-WHO",
                               "nothing before the copy starts may touch the filesystem", "main-prefix")
    # every rejection lies in the prefix
    seen_rej = {}
    for bi, b in enumerate(m.blocks):
        if b.get("cleanup"):
            continue
        for s in b["stmts"]:
            rv = s["rv"]
            if rv["k"] == "agg" and rv.get("adt") == "libxcp::errors::XcpError" and rv["variant"].startswith("Invalid"):
                k_ = (rv["variant"], s["span"]["file"], s["span"]["line"], s["span"].get("col"))
                seen_rej[k_] = seen_rej.get(k_, True) and (bi in prefix)
    for n, (k_, ok) in enumerate(sorted(seen_rej.items())):
        obs.append(Ob("R-ORDER", mkkey("R-ORDER", MAIN, "XcpError::" + k_[0], n, "in-prefix"), ok,
                      "%s:%d" % (k_[1], k_[2]), MAIN,
                      "rejection %s is decided before the copy starts: %s" % (k_[0], ok)))
    if len(seen_rej) < 6:
        obs.append(anchor_ob("R-ORDER", "rejections in main (found %d)" % len(seen_rej)))
    # "several sources need a directory": the InvalidDestination rejections are decided by whether the destination
    # *is a directory* (is_dir == false covers a missing destination, a file, a FIFO, a dangling link alike); a
    # test for one of the other things it might be (is_file) lets the rest through to the copy
    DIRQ = ("std::path::Path::is_dir", "libxcp::paths::is_dir", "std::fs::Metadata::is_dir", "std::fs::FileType::is_dir")
    rej = []
    for bi, b in enumerate(m.blocks):
        if b.get("cleanup") or bi not in set(prefix):
            continue
        for s_ in b["stmts"]:
            rv = s_["rv"]
            if rv["k"] == "agg" and rv.get("adt") == "libxcp::errors::XcpError" and rv.get("variant") == "InvalidDestination":
                rej.append((bi, s_))
    gated_any = False
    for bi, s_ in rej:
        if any(q.gated(m, bi, "call", pr_, False, fx)[0] for pr_ in DIRQ):
            gated_any = True
    if rej:
        obs.append(Ob("R-TABLE", mkkey("R-TABLE", MAIN, "XcpError::InvalidDestination", 0, "not-a-directory"), gated_any, m.loc(), MAIN,
                      "a destination that is not a directory is refused for several sources / a directory source: the refusal "
                      "depends on is_dir(dest) == false: %s" % gated_any,
                      None if gated_any else dict(note="no InvalidDestination rejection is control-dependent on a directory test of the destination being false")))
    # the option conflict is rejected before the copy
    obs += p_gate.force_conflict(fx)
    # glob expansion (and its errors) happens before the copy starts and not after
    GLOB = "glob::glob"
    rest = [b for b in cfg.reachable() if b not in set(prefix)]
    pre_r = q.view_reach(fx, m, prefix)
    post_r = q.view_reach(fx, m, rest)
    okg = GLOB in pre_r and GLOB not in post_r
    obs.append(Ob("R-ORDER", mkkey("R-ORDER", MAIN, GLOB, 0, "before-copy"), okg, m.loc(), MAIN,
                  "source patterns are expanded (glob errors surface) before the copy starts, never after: %s" % okg))
    # the validation loop runs over the very list handed to the copy and completes before the spawn
    du = defuse(m)
    caps = set()
    for bi, t in sp:
        for fv in t["fn"].get("fnvals", []):
            for b in m.blocks:
                for s in b["stmts"]:
                    if s["rv"]["k"] == "agg" and s["rv"].get("ak") == "closure" and s["rv"].get("closure") == fv:
                        for o in s["rv"]["fields"]:
                            l = op_local(o)
                            ty_ = m.locals[l]["ty"] if l is not None else ""
                            # the source list itself, or a request/plan struct that carries it
                            if l is not None and ("Vec<std::path::PathBuf" in ty_ or
                                                  (ty_.split("<")[0] in fx.adts and not ty_.startswith("&")
                                                   and any("PathBuf" in str(fd_) for v_ in fx.adts[ty_.split("<")[0]].get("variants", [])
                                                           for fd_ in v_.get("fields", [])))):
                                caps.add(l)
    caps0 = set(caps)
    # aliases of the captured list by plain moves (backwards)
    work = list(caps)
    while work:
        l = work.pop()
        for site, whole in du.defs.get(l, []):
            if not site.is_term and site.node["rv"]["k"] == "use":
                p_ = op_place(site.node["rv"]["op"])
                if p_ is not None and p_.get("p"):
                    # moved out of a field of a plan/context struct: what was put into that field
                    src_ = q.agg_field_source(m, p_)
                    p_ = op_place(src_) if src_ is not None else None
                if p_ is not None and not p_.get("p") and p_["l"] not in caps:
                    caps.add(p_["l"])
                    work.append(p_["l"])
    loops = cfg.loops()
    it_ok = False
    val_loops = []
    for h, body in loops.items():
        if any(sb in body for sb in sbs):
            continue
        for bi in body:
            t = m.blocks[bi]["term"]
            if t["k"] == "call" and callee_orig(t) == "core::iter::traits::iterator::Iterator::next":
                l0 = op_local(t["args"][0])
                if l0 is None:
                    continue
                atoms, ff, seen = Prov(m, table={"core::iter::traits::collect::IntoIterator::into_iter": [0],
                                                 "core::slice::<impl [T]>::iter": [0],
                                                 "core::ops::deref::Deref::deref": [0],
                                                 "alloc::vec::Vec::<T, A>::as_slice": [0]}).origins(l0)
                if not all(cfg.dominates(bi, sb) for sb in sbs):
                    continue
                if seen & caps:
                    it_ok = True
                    val_loops.append((h, body, bi))
                else:
                    # the list may travel to the copy inside a plan/context struct, through `?` and destructuring
                    import p_thread
                    roots = [x for x in seen if not m.locals[x]["ty"].startswith("&") and (
                        "Vec<std::path::PathBuf" in m.locals[x]["ty"] or m.locals[x]["ty"].split("<")[0] in fx.adts)]
                    tn, _via = p_thread.taint_from(m, roots)
                    if tn & caps0:
                        it_ok = True
                        val_loops.append((h, body, bi))
    obs.append(Ob("R-ORDER", mkkey("R-ORDER", MAIN, "validate-all-sources", 0), it_ok, m.loc(), MAIN,
                  "a loop over the source list that is handed to the copy completes before the copy starts: %s" % it_ok))
    # ... and it looks at every source: no iteration can complete without the source's type having been probed
    # (the "directory without --recursive" rejection hangs on that probe); a validation skipped for some class of
    # invocations (`if !opts.glob { .. }`) lets a rejected invocation through to the copy
    import r_err as _re
    sigm = _re.signal_blocks(m)
    DIRPROBES = ("std::path::Path::is_dir", "libxcp::paths::is_dir", "std::fs::Metadata::is_dir", "std::fs::FileType::is_dir",
                 "std::path::Path::metadata", "std::fs::metadata")
    for n_, (h, body, nb) in enumerate(val_loops[:1]):
        rec = [bi for bi in body if m.blocks[bi]["term"]["k"] == "switch" and
               any(rd[0] == OPTS and rd[1] == "recursive" for rd in q.switch_field_reads(m, bi))]
        if not rec:
            continue
        U = set()
        pv_ = Prov(m)
        for u in body:
            if m.blocks[u]["term"]["k"] != "switch":
                continue
            for rd in q.switch_field_reads(m, u):
                if rd[0] != "call" or rd[1] not in DIRPROBES or rd[3] is None or not rd[3].is_term:
                    continue
                ct = rd[3].node
                a0 = op_local(ct["args"][0]) if ct.get("args") else None
                if a0 is None:
                    continue
                atoms_, _ff, _seen = pv_.origins(a0)
                # the probed path is the loop's item (not the destination, probed once outside or inside the loop)
                if any(a_.kind == "call" and a_.site is not None and a_.site.bb == nb for a_ in atoms_):
                    U.add(u)
        nt = m.blocks[nb]["term"]
        sw = m.blocks[nt["target"]]["term"] if nt.get("target") is not None else None
        if not U or sw is None or sw["k"] != "switch":
            obs.append(anchor_ob("R-ORDER", "the validation loop probes each source's type"))
            continue
        explicit = {int(v): tb for v, tb in sw["targets"]}
        some_t = explicit.get(1, sw["otherwise"])
        r_ = cfg.reach([some_t], blocked=set(U) | set(sigm))
        okp = nb not in r_ and not any(sb in r_ for sb in sbs)
        obs.append(Ob("R-ORDER", mkkey("R-ORDER", MAIN, "validate-all-sources", 0, "every-source-probed"), okp, m.loc(), MAIN,
                      "no iteration of the validation loop completes without the source's type being probed: %s" % okp,
                      None if okp else dict(loop_header="bb%d" % h, probes=sorted(U))))
    # the walk follows a symlink given as a source (walkdir follows root links), so the validation must too:
    # an lstat-based test accepts a dangling link, which then fails in the walker after earlier sources were copied
    k = 0
    pset = set(prefix)
    lsites = set()
    for bi, t in m.calls():
        if bi in pset and q.names(t)[0] in LSTAT and not q.span_excluded(t["span"]):
            sid = views.site(m, bi)
            if sid in lsites:
                continue
            lsites.add(sid)
            obs.append(Ob("R-PROBE", mkkey("R-PROBE", MAIN, q.names(t)[0], k, "validation-follows-links"), False, q.loc_of(t), MAIN,
                          "source validation uses %s, which does not follow symlinks although the walk does" % q.names(t)[0].split("::")[-1],
                          dict(callee=q.names(t)[0])))
            k += 1
    follows = set(views.site(m, bi) for bi, t in m.calls() if bi in pset and q.names(t)[0] in LINK_FOLLOWING)
    obs.append(Ob("R-PROBE", mkkey("R-PROBE", MAIN, "source-probes", 0, "validation-follows-links"), bool(follows) and k == 0, m.loc(), MAIN,
                  "main validates sources with link-following probes (%d sites, %d lstat sites)" % (len(follows), k)))
    # several sources and a destination that is not a directory (a file, a FIFO, or *nothing at all*) never reach
    # the copy: assume `sources.len() >= 2` and `is_dir(dest) == false`, take away the edges those two facts
    # exclude and the blocks that signal a failure, and the spawn must be unreachable -- whatever else is tested
    # on the way (`dest.exists() && ..` lets a missing destination through: both sources land in one new file)
    obs += several_sources_need_directory(fx, m, cfg, prefix, sbs, caps, sigm, DIRQ)
    # same mapping rule in the pre-flight and in the walker
    obs += target_base_agreement(fx)
    ctx.add(obs)


def several_sources_need_directory(fx, m, cfg, prefix, sbs, caps, sigm, DIRQ):
    from cfg import whole_defs
    pv_ = Prov(m, table={"core::iter::traits::collect::IntoIterator::into_iter": [0], "core::slice::<impl [T]>::iter": [0],
                         "core::ops::deref::Deref::deref": [0], "alloc::vec::Vec::<T, A>::as_slice": [0],
                         "core::ops::index::Index::index": [0], "core::iter::traits::iterator::Iterator::next": [0]})

    def about_sources(l):
        if l is None:
            return False
        atoms_, _ff, seen = pv_.origins(l)
        return bool(seen & caps)

    def chase(l, depth=0):
        """The defining call (through plain moves) of local l, or None."""
        if l is None or depth > 6:
            return None
        ds = whole_defs(m, l)
        if len(ds) != 1:
            return None
        if ds[0].is_term:
            return ds[0].node if ds[0].node["k"] == "call" else None
        rv = ds[0].node["rv"]
        if rv["k"] in ("use", "cast") and op_local(rv["op"]) is not None and not op_place(rv["op"]).get("p"):
            return chase(op_local(rv["op"]), depth + 1)
        return None

    blocked = []
    used = dict(dir=0, count=0)
    pset = set(prefix)
    for u in prefix:
        t = m.blocks[u]["term"]
        if t["k"] != "switch" or t.get("op_ty") != "bool" or len(t["targets"]) != 1:
            continue
        val, tb = t["targets"][0]
        false_t, true_t = (tb, t["otherwise"]) if str(val) == "0" else (t["otherwise"], tb)
        # (1) a directory test of the destination, possibly negated
        for rd in q.switch_field_reads(m, u):
            if rd[0] == "call" and rd[1] in DIRQ and rd[3] is not None and rd[3].is_term and rd[3].node.get("args"):
                a0 = op_local(rd[3].node["args"][0])
                if a0 is not None and not about_sources(a0):
                    # the probe answers false: the operand is `false ^ flip`
                    blocked.append((u, false_t if rd[2] else true_t))
                    used["dir"] += 1
            if rd[0] == "call" and rd[1].endswith("::is_empty") and rd[3] is not None and rd[3].is_term and rd[3].node.get("args"):
                if about_sources(op_local(rd[3].node["args"][0])):
                    blocked.append((u, false_t if rd[2] else true_t))
                    used["count"] += 1
        # (2) a comparison of the number of sources with a constant
        ol = op_local(t["op"])
        ds = whole_defs(m, ol) if ol is not None else []
        if len(ds) == 1 and not ds[0].is_term and ds[0].node["rv"]["k"] == "bin" and ds[0].node["rv"]["op"] in ("Eq", "Ne", "Lt", "Le", "Gt", "Ge"):
            rv = ds[0].node["rv"]
            x, kc, op = rv["a"], rv["b"], rv["op"]
            if "c" in x and "c" not in kc:
                x, kc = kc, x
                op = {"Gt": "Lt", "Lt": "Gt", "Ge": "Le", "Le": "Ge"}.get(op, op)
            if "c" in kc and isinstance(kc["c"].get("v"), int) and not isinstance(kc["c"].get("v"), bool):
                ct = chase(op_local(x))
                if ct is not None and (q.names(ct)[0] or q.names(ct)[1] or "").endswith("::len") and ct.get("args") \
                        and about_sources(op_local(ct["args"][0])):
                    k = kc["c"]["v"]
                    # truth of `n op k` for every n >= 2, if it is the same for all of them
                    truth = {"Eq": (False if k < 2 else None), "Ne": (True if k < 2 else None),
                             "Gt": (True if k <= 1 else None), "Ge": (True if k <= 2 else None),
                             "Lt": (False if k <= 2 else None), "Le": (False if k <= 1 else None)}[op]
                    if truth is not None:
                        blocked.append((u, false_t if truth else true_t))
                        used["count"] += 1
    if not used["dir"] or not used["count"]:
        # the validation is not written with these tests: nothing is claimed by this rule (the not-a-directory rule
        # above still requires a refusal that depends on is_dir(dest) == false)
        return []
    r = cfg.reach([0], blocked=set(sigm), blocked_edges=blocked)
    leak = sorted(sb for sb in sbs if sb in r)
    ok = not leak
    return [Ob("R-TABLE", mkkey("R-TABLE", MAIN, "XcpError::InvalidDestination", 0, "several-sources-need-directory"), ok, m.loc(), MAIN,
               "with two or more sources and a destination that is not a directory (missing included) the copy is never "
               "started: %s (%d directory tests of the destination, %d tests of the number of sources taken into account)" % (
                   ok, used["dir"], used["count"]),
               None if ok else dict(spawn_reached=["bb%d" % x for x in leak]))]


def target_base_agreement(fx):
    """R-SIB(2): main's pre-flight target_base and tree_walker's are computed by the same rule:
    dest.join(last component) iff (dest is a directory) && !no_target_directory, else dest."""
    obs = []
    summ = {}
    import views
    for fp, cfgadt, f in ((MAIN, OPTS, views.main_view(fx)), (WALKER, CONFIG, views.walker_view(fx))):
        if f is None:
            obs.append(anchor_ob("R-SIB", fp))
            continue
        joins = q.calls_to(f, "std::path::Path::join")
        s = None
        for bi, t in joins:
            c1, a1, f1 = q.arg_origin_calls(f, t, 1)
            if "core::iter::traits::double_ended::DoubleEndedIterator::next_back" not in c1:
                continue
            gates = []
            ok_nt, _ = q.gated(f, bi, cfgadt, "no_target_directory", False)
            isdir = False
            for probe in ("std::path::Path::is_dir", "libxcp::paths::is_dir", "std::fs::Metadata::is_dir", "std::fs::FileType::is_dir"):
                okd, _ = q.gated(f, bi, "call", probe, True, fx)
                isdir = isdir or okd
            s = dict(no_target_directory_false=ok_nt, dest_is_dir=isdir)
        summ[fp] = s
    a, b = summ.get(MAIN), summ.get(WALKER)
    ok = a is not None and a == b and a["no_target_directory_false"] and a["dest_is_dir"]
    obs.append(Ob("R-SIB", mkkey("R-SIB", "main~tree_walker", "target_base", 0), ok, "", WALKER,
                  "target_base = dest.join(basename) iff dest is a directory && !no_target_directory: main %s, walker %s" % (a, b),
                  None if ok else dict(main=a, walker=b)))
    return obs
