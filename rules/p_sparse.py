"""C19 (structural clauses only): the sparse maps libfs hands out never *drop* coverage.

Decided, each a necessary condition of the property:
 (a) map_extents forwards every extent the kernel reports (the push dominates the latch of the loop over the
     mapped extents) and builds each range from the kernel's own fields: start <- fe_logical,
     end <- fe_logical + fe_length;
 (b) merge_extents is *linear* in its inputs: `Extent` is neither Copy nor Clone and has no destructor, so a value
     that is not moved on is silently forgotten.  On every path from the point an extent is taken (loop item, or
     the pending `prev`) to the loop latch / the return, it is moved into the output vector, moved into the
     pending slot, or its boundary flows into the merged extent;
 (c) a merged extent begins and ends at input boundaries: its `start` is a plain copy of an input's `start`, its
     `end` a plain copy of an input's `end` (no arithmetic), so merging adds nothing but the gap between them;
 (d) the pending extent left when the input is exhausted is pushed;
 (e) next_sparse_segments returns offsets that come only from SEEK_DATA/SEEK_HOLE answers or the file length,
     and the hole search starts at the data offset just found.
 (f) merging never shrinks the pending extent (merge_guard): the test leading to `end: e.end` bounds e.start from
     below by p.end, or the end is max(p.end, e.end).
Not decided: that the kernel's extents are ordered and non-overlapping, that bytes outside them read as zero,
whether `p.end + 1` is the right adjacency constant, FIEMAP paging termination.
"""
from cfg import cfg_of, defuse, Prov, op_local, op_place, place_fields, callee_orig
from engine import Ob, mkkey, anchor_ob
import q
import r_order as ro

EXTENT = "libfs::Extent"
MERGE = "libfs::common::merge_extents"
MAP = "libfs::linux::map_extents"
NSS = "libfs::linux::next_sparse_segments"
PUSH = "alloc::vec::Vec::<T, A>::push"


def _shallow_source(f, l, depth=0):
    """What a temporary was computed from, following only plain moves: ('field', base local, field name) |
    ('bin', op, [sources]) | ('other', kind)."""
    du = defuse(f)
    from cfg import whole_defs
    ds = whole_defs(f, l)
    if len(ds) != 1 or depth > 6:
        return ("other", "multi-def")
    site = ds[0]
    if site.is_term:
        return ("other", "call:" + (callee_orig(site.node) or "?"))
    rv = site.node["rv"]
    if rv["k"] in ("use", "cast"):
        p = op_place(rv["op"])
        if p is None:
            return ("other", "const")
        named = [e for e in p.get("p", []) if isinstance(e, dict) and "f" in e]
        if named:
            last = named[-1]
            if last.get("n") in ("0", "1", None) or str(last.get("n")).isdigit():
                # `.0` of a checked-arithmetic tuple
                return _shallow_source(f, p["l"], depth + 1)
            return ("field", p["l"], last.get("n"), last.get("adt"))
        return _shallow_source(f, p["l"], depth + 1)
    if rv["k"] == "bin":
        srcs = []
        for o in (rv["a"], rv["b"]):
            ol = op_local(o)
            srcs.append(_shallow_source(f, ol, depth + 1) if ol is not None else ("other", "const"))
        return ("bin", rv["op"], srcs)
    return ("other", rv["k"])


def _extreme_of_inputs(f, l, fname):
    """l = max(x.end, y.end) (or min(x.start, y.start)) of two input extents: returns one of the extent locals."""
    from cfg import whole_defs
    ds = whole_defs(f, l)
    for _ in range(4):
        if len(ds) == 1 and not ds[0].is_term and ds[0].node["rv"]["k"] == "use" and op_local(ds[0].node["rv"]["op"]) is not None \
                and not (op_place(ds[0].node["rv"]["op"]).get("p")):
            ds = whole_defs(f, op_local(ds[0].node["rv"]["op"]))
        else:
            break
    if len(ds) != 1 or not ds[0].is_term or ds[0].node["k"] != "call":
        return None
    t = ds[0].node
    o = callee_orig(t) or ""
    want = ("core::cmp::max", "core::cmp::Ord::max") if fname == "end" else ("core::cmp::min", "core::cmp::Ord::min")
    if o not in want or len(t["args"]) != 2:
        return None
    bases = []
    for a_ in t["args"]:
        al = op_local(a_)
        src = _shallow_source(f, al) if al is not None else ("other", "const")
        if not (src[0] == "field" and src[2] == fname and f.locals[src[1]]["ty"] == EXTENT):
            return None
        bases.append(src[1])
    return bases[0]


def _lin(f, l, depth=0):
    """l == base.field + c, following plain moves, `.0` of checked arithmetic and +/- constants: (base, field, c) | None."""
    from cfg import whole_defs
    ds = whole_defs(f, l)
    if len(ds) != 1 or depth > 8 or ds[0].is_term:
        return None
    rv = ds[0].node["rv"]
    if rv["k"] in ("use", "cast"):
        p = op_place(rv["op"])
        if p is None:
            return None
        named = [e for e in p.get("p", []) if isinstance(e, dict) and "f" in e]
        if named:
            last = named[-1]
            if last.get("adt") == EXTENT:
                return (p["l"], last.get("n"), 0)
            if len(named) == 1 and str(last.get("f")) == "0" and last.get("adt") is None:
                return _lin(f, p["l"], depth + 1)
            return None
        return _lin(f, p["l"], depth + 1)
    if rv["k"] == "bin" and rv["op"].startswith(("Add", "Sub")):
        a_, b_ = rv["a"], rv["b"]
        sign = 1 if rv["op"].startswith("Add") else -1
        if "c" in b_ and isinstance(b_["c"].get("v"), int) and op_local(a_) is not None:
            x = _lin(f, op_local(a_), depth + 1)
            return None if x is None else (x[0], x[1], x[2] + sign * b_["c"]["v"])
        if "c" in a_ and isinstance(a_["c"].get("v"), int) and op_local(b_) is not None and sign == 1:
            x = _lin(f, op_local(b_), depth + 1)
            return None if x is None else (x[0], x[1], x[2] + a_["c"]["v"])
    return None


def merge_guard(fx):
    """(c2) merging never shrinks the pending extent: where a merged extent takes its `start` from the pending
    extent P and its `end` from the next extent E (a plain copy, not a max), the test that leads there bounds
    E.start from *below* by P.end (`==`, `>=`, `>`), so that E.end >= E.start >= P.end.  A test that only bounds it
    from above (`E.start <= P.end + 1`) also admits an E contained in P, and the tail of P drops out of the map."""
    f = fx.fn(MERGE)
    if f is None:
        return [anchor_ob("R-TABLE", MERGE)]
    cfg = cfg_of(f)
    obs = []
    notes = []
    k = 0
    for bi, b in enumerate(f.blocks):
        if b.get("cleanup"):
            continue
        for s in b["stmts"]:
            rv = s["rv"]
            if not (rv["k"] == "agg" and rv.get("adt") == EXTENT):
                continue
            srcs = {}
            for fname in ("start", "end"):
                o = rv["fields"][rv["fnames"].index(fname)]
                l = op_local(o)
                srcs[fname] = _lin(f, l) if l is not None else None
                if fname == "end" and l is not None and _extreme_of_inputs(f, l, "end"):
                    srcs[fname] = "max"
            if srcs["end"] == "max":
                obs.append(Ob("R-TABLE", mkkey("R-TABLE", MERGE, "merged.end", k, "no-shrink"), True,
                              "%s:%d" % (s["span"]["file"], s["span"]["line"]), MERGE,
                              "merged extent ends at the larger of the two ends"))
                k += 1
                continue
            st, en = srcs["start"], srcs["end"]
            if not st or not en or st[1] != "start" or en[1] != "end" or st[2] != 0 or en[2] != 0 or st[0] == en[0]:
                continue        # not a two-extent merge of this shape (rule (c) judges its fields)
            P, E = st[0], en[0]
            rel = []            # (switch block, gives lower bound?, text)
            for u, bu in enumerate(f.blocks):
                t = bu["term"]
                if bu.get("cleanup") or t["k"] != "switch" or t.get("op_ty") != "bool" or len(t["targets"]) != 1:
                    continue
                val, tb = t["targets"][0]
                for v, truth in ((tb, str(val) != "0"), (t["otherwise"], str(val) == "0")):
                    if v == tb and tb == t["otherwise"]:
                        continue
                    if not cfg.edge_dominates((u, v), bi):
                        continue
                    from cfg import whole_defs
                    cl = op_local(t["op"])
                    ds = whole_defs(f, cl) if cl is not None else []
                    if len(ds) != 1 or ds[0].is_term or ds[0].node["rv"]["k"] != "bin":
                        continue
                    c = ds[0].node["rv"]
                    la = _lin(f, op_local(c["a"])) if op_local(c["a"]) is not None else None
                    lb = _lin(f, op_local(c["b"])) if op_local(c["b"]) is not None else None
                    if not la or not lb:
                        continue
                    op = c["op"]
                    if (la[0], la[1]) == (P, "end") and (lb[0], lb[1]) == (E, "start"):
                        la, lb = lb, la
                        op = {"Gt": "Lt", "Lt": "Gt", "Ge": "Le", "Le": "Ge"}.get(op, op)
                    if (la[0], la[1]) != (E, "start") or (lb[0], lb[1]) != (P, "end"):
                        continue
                    # on this edge:  E.start + la[2]  <op is truth>  P.end + lb[2]
                    lower = (op == "Eq" and truth) or (op in ("Ge", "Gt") and truth) or (op in ("Lt", "Le") and not truth) \
                        or (op == "Ne" and not truth)
                    slack = lb[2] - la[2] + (1 if (op == "Gt" and truth) or (op == "Le" and not truth) else 0)
                    rel.append((u, lower and slack >= 0, lower and slack < 0,
                                "%s.start%+d %s %s.end%+d is %s" % (f.name_of_local.get(E, "_%d" % E), la[2], op,
                                                                    f.name_of_local.get(P, "_%d" % P), lb[2], truth)))
            loc = "%s:%d" % (s["span"]["file"], s["span"]["line"])
            if not rel or any(r[2] for r in rel) and not any(r[1] for r in rel):
                notes.append(dict(site=loc, undecided="no test relating %s.start and %s.end leads to the merge"
                                  % (f.name_of_local.get(E, E), f.name_of_local.get(P, P)) if not rel else
                                  "the test allows an overlap of a constant size: " + "; ".join(r[3] for r in rel)))
                continue
            ok = any(r[1] for r in rel)
            obs.append(Ob("R-TABLE", mkkey("R-TABLE", MERGE, "merged.end", k, "no-shrink"), ok, loc, MERGE,
                          "the merged extent ends at %s.end, and the test leading here (%s) %s" % (
                              f.name_of_local.get(E, "_%d" % E), "; ".join(r[3] for r in rel),
                              "bounds its start from below by the pending extent's end: nothing is dropped" if ok else
                              "does NOT bound its start from below: an extent contained in the pending one shrinks it"),
                          None if ok else dict(tests=[r[3] for r in rel])))
            k += 1
    merge_guard.notes = notes
    return obs


def _root_local(f, l, depth=0):
    """The local a reference/copy chain starts from (`_p = move _t; _t = &(*_1)` -> _1)."""
    du = defuse(f)
    from cfg import whole_defs
    ds = whole_defs(f, l)
    if len(ds) != 1 or depth > 8 or ds[0].is_term:
        return l
    rv = ds[0].node["rv"]
    if rv["k"] in ("use", "cast"):
        p = op_place(rv["op"])
        if p is not None and all(e == "deref" for e in p.get("p", [])):
            return _root_local(f, p["l"], depth + 1)
    elif rv["k"] == "ref":
        p = rv["pl"]
        if all(e == "deref" for e in p.get("p", [])):
            return _root_local(f, p["l"], depth + 1)
    return l


def _extent_locals(f):
    return [i for i, l in enumerate(f.locals) if l["ty"] == EXTENT]


def _consuming_blocks(f, l):
    """Blocks in which extent local l is moved on (whole-value move into a call, aggregate or another local) or
    one of its boundary fields flows into an Extent aggregate."""
    du = defuse(f)
    out = set()
    for site, how in du.uses.get(l, []):
        n = site.node
        if site.is_term:
            if n["k"] == "call" and how.startswith("arg"):
                a = n["args"][int(how[3:])]
                if "mv" in a and not a["mv"].get("p"):
                    out.add(site.bb)
            continue
        if how != "rv":
            continue
        rv = n["rv"]
        if rv["k"] == "use":
            p = op_place(rv["op"])
            if p is None or p["l"] != l:
                continue
            if not p.get("p") and "mv" in rv["op"]:
                out.add(site.bb)            # moved to another local: that local carries the obligation on
            elif p.get("p"):
                # a field read: does it end up in an Extent aggregate?
                tgt = n["lhs"]["l"]
                # written straight into a field of another extent (`last.end = e.end`)
                lp0 = [e_ for e_ in (n["lhs"].get("p") or []) if isinstance(e_, dict) and "f" in e_]
                if lp0 and lp0[-1].get("adt") == EXTENT:
                    out.add(site.bb)
                for s2, h2 in du.uses.get(tgt, []):
                    if not s2.is_term and s2.node["rv"]["k"] == "agg" and s2.node["rv"].get("adt") == EXTENT:
                        out.add(site.bb)
                    # through max()/min() of two boundaries (`end: max(p.end, e.end)`)
                    if s2.is_term and s2.node["k"] == "call" and (callee_orig(s2.node) or "") in (
                            "core::cmp::max", "core::cmp::Ord::max", "core::cmp::min", "core::cmp::Ord::min"):
                        for s3, h3 in du.uses.get(s2.node["dest"]["l"], []):
                            if not s3.is_term and s3.node["rv"]["k"] == "agg" and s3.node["rv"].get("adt") == EXTENT:
                                out.add(site.bb)
                    lp2 = [e_ for e_ in (s2.node.get("lhs", {}).get("p") or []) if isinstance(e_, dict) and "f" in e_] \
                        if not s2.is_term else []
                    if lp2 and lp2[-1].get("adt") == EXTENT and h2 == "rv":
                        out.add(site.bb)
                    if not s2.is_term and h2 == "rv" and s2.node["rv"]["k"] == "bin":
                        # `last.shared &= e.shared`
                        lp3 = [e_ for e_ in (s2.node["lhs"].get("p") or []) if isinstance(e_, dict) and "f" in e_]
                        t3 = s2.node["lhs"]["l"]
                        if lp3 and lp3[-1].get("adt") == EXTENT:
                            out.add(site.bb)
        elif rv["k"] == "agg":
            if any(op_local(o) == l and "mv" in o for o in rv["fields"]):
                out.add(site.bb)
    return out


def merge_linear(fx):
    import views
    obs = []
    f = views.view(fx, MERGE, depth=4) if fx.fn(MERGE) is not None else None
    if f is None:
        return [anchor_ob("R-OWN", MERGE)]
    cfg = cfg_of(f)
    du = defuse(f)
    # Extent is not Copy/Clone/Drop: the premise of the linearity argument
    bad_impls = [i for i in fx.impls if i["self_ty"] == EXTENT and i["trait"] in (
        "core::clone::Clone", "core::marker::Copy", "core::ops::drop::Drop")]
    obs.append(Ob("R-OWN", mkkey("R-OWN", EXTENT, "not Copy/Clone/Drop", 0), not bad_impls, "", EXTENT,
                  "libfs::Extent is a plain move-only value (no Copy, Clone or Drop impl): %s" % (not bad_impls),
                  dict(impls=bad_impls) if bad_impls else None))
    loops = cfg.loops()
    if not loops:
        return obs + [anchor_ob("R-OWN", "merge_extents iterates over its input")]
    h, body = max(loops.items(), key=lambda kv: len(kv[1]))
    latches = [u for (u, v) in cfg.back_edges() if v == h]
    n = 0
    for l in _extent_locals(f):
        defs = [s for s, whole in du.defs.get(l, []) if whole and not s.is_term]
        for site in defs:
            rv = site.node["rv"]
            # taken out of an Option / iterator item: `move (x as Some).0`
            if rv["k"] != "use" or "mv" not in rv["op"] or not rv["op"]["mv"].get("p"):
                continue
            cons = _consuming_blocks(f, l)
            if site.bb in body:
                targets = latches
                where = "the next iteration"
            else:
                targets = cfg.returns
                where = "the return"
            ok = bool(cons) and cfg.passes_through(sorted(cons), site.bb, targets) if site.bb not in cons else True
            nm = f.name_of_local.get(l, "_%d" % l)
            obs.append(Ob("R-OWN", mkkey("R-OWN", MERGE, "Extent `%s`" % nm, n, "moved-on"), ok,
                          "%s:%d" % (site.node["span"]["file"], site.node["span"]["line"]), MERGE,
                          "extent `%s` taken at bb%d is pushed, kept pending or merged on every path to %s: %s" % (
                              nm, site.bb, where, ok),
                          None if ok else dict(taken="bb%d" % site.bb, consumed_in=sorted(cons), must_reach=targets)))
            n += 1
    if n < 1:
        obs.append(anchor_ob("R-OWN", "extent values taken in merge_extents (found %d)" % n))
    # (c) merged extents begin/end at input boundaries
    k = 0
    for bi, b in enumerate(f.blocks):
        if b.get("cleanup"):
            continue
        for s in b["stmts"]:
            rv = s["rv"]
            if rv["k"] == "agg" and rv.get("adt") == EXTENT:
                for fname in ("start", "end"):
                    i = rv["fnames"].index(fname)
                    o = rv["fields"][i]
                    l = op_local(o)
                    src = _shallow_source(f, l) if l is not None else ("other", "const")
                    ok = src[0] == "field" and src[2] == fname and f.locals[src[1]]["ty"] == EXTENT
                    if not ok and l is not None and _extreme_of_inputs(f, l, fname):
                        ok, src = True, ("field", _extreme_of_inputs(f, l, fname), fname)
                    why = ("copies the `%s` of input extent `%s`" % (fname, f.name_of_local.get(src[1], "_%d" % src[1]))) if ok \
                        else "is computed from %s" % (src,)
                    obs.append(Ob("R-TABLE", mkkey("R-TABLE", MERGE, "merged." + fname, k, "input-boundary"), ok,
                                  "%s:%d" % (s["span"]["file"], s["span"]["line"]), MERGE,
                                  "merged extent's `%s` %s" % (fname, why), None if ok else dict(field=fname)))
                k += 1
            # in-place growth of the pending extent: `last.end = next.end`
            lp = [e for e in (s["lhs"].get("p") or []) if e != "deref"]
            if lp and isinstance(lp[-1], dict) and lp[-1].get("adt") == EXTENT and lp[-1].get("n") in ("start", "end") \
                    and rv["k"] == "use":
                fname = lp[-1]["n"]
                l = op_local(rv["op"])
                pl_ = op_place(rv["op"])
                src = ("other", "const")
                if pl_ is not None:
                    named = [e for e in pl_.get("p", []) if isinstance(e, dict) and "f" in e]
                    if named:
                        src = ("field", pl_["l"], named[-1].get("n"), named[-1].get("adt"))
                    elif l is not None:
                        src = _shallow_source(f, l)
                ok = src[0] == "field" and src[2] == fname and (len(src) < 4 or src[3] in (EXTENT, None))
                why = ("copies the `%s` of an input extent" % fname) if ok else "is computed from %s" % (src,)
                obs.append(Ob("R-TABLE", mkkey("R-TABLE", MERGE, "merged." + fname, k, "input-boundary"), ok,
                              "%s:%d" % (s["span"]["file"], s["span"]["line"]), MERGE,
                              "merged extent's `%s` %s" % (fname, why), None if ok else dict(field=fname)))
                k += 1
    if k == 0:
        obs.append(anchor_ob("R-TABLE", "merge_extents builds or grows a merged Extent"))
    # (d) the pending extent is pushed when the input is exhausted
    # a pending slot: an Option<Extent> into which the loop *stores* an extent (`prev = Some(e)`), as opposed to
    # the iterator's own `next()` result
    opt_locals = [i for i, lc in enumerate(f.locals) if lc["ty"].startswith("core::option::Option<libfs::Extent")
                  and any(site.bb in body and not site.is_term and site.node["rv"]["k"] == "agg"
                          and site.node["rv"].get("variant") == "Some" for site, w in du.defs.get(i, []))]
    if opt_locals:
        # the slot may travel (a tuple accumulator of `fold`, a destructuring after the loop): every Option<Extent>
        # local fed from it is the same slot
        base = set(opt_locals)
        for i, lc in enumerate(f.locals):
            if i not in base and lc["ty"].startswith("core::option::Option<libfs::Extent"):
                _a, _fl, seen_ = Prov(f).origins(i)
                if seen_ & base:
                    opt_locals.append(i)
    exits = sorted(set(s_ for b_ in body for s_ in cfg.succ[b_] if s_ not in body))
    push_blocks = []
    for bi, t in q.calls_to(f, PUSH):
        if bi in body:
            continue
        l = op_local(t["args"][1])
        atoms, fields, seen = Prov(f).origins(l) if l is not None else ([], set(), set())
        if any(x in seen for x in opt_locals):
            push_blocks.append(bi)
    # `merged.extend(last)`: extending a Vec with an Option pushes it when it is Some
    for bi, t in q.calls_to(f, "core::iter::traits::collect::Extend::extend"):
        if bi in body or len(t["args"]) < 2:
            continue
        l = op_local(t["args"][1])
        if l is not None and f.locals[l]["ty"].startswith("core::option::Option<libfs::Extent"):
            atoms, fields, seen = Prov(f).origins(l)
            if l in opt_locals or any(x in seen for x in opt_locals):
                push_blocks.append(bi)
    none_edges = []
    for bi, b in enumerate(f.blocks):
        if bi in body or b.get("cleanup"):
            continue
        for s in b["stmts"]:
            rv = s["rv"]
            if rv["k"] == "discr" and rv["pl"]["l"] in opt_locals and not rv["pl"].get("p"):
                for site, how in du.uses.get(s["lhs"]["l"], []):
                    if how == "switch" and site.is_term:
                        t = site.node
                        explicit = {int(v): tb for v, tb in t["targets"]}
                        none_edges.append((site.bb, explicit.get(0, t["otherwise"])))
    r = cfg.reach(exits, blocked=push_blocks, blocked_edges=none_edges)
    leak = [x for x in cfg.returns if x in r]
    if not opt_locals:
        # no pending slot: the extent being grown lives in the output vector already (`merged.last_mut()`)
        obs.append(Ob("R-OWN", mkkey("R-OWN", MERGE, "pending extent", 0, "flushed"), True, f.loc(), MERGE,
                      "no extent is held back outside the result vector (nothing to flush when the input ends)"))
        return obs
    okd = bool(opt_locals) and bool(push_blocks) and not leak
    obs.append(Ob("R-OWN", mkkey("R-OWN", MERGE, "pending extent", 0, "flushed"), okd, f.loc(), MERGE,
                  "the extent still pending when the input ends is pushed to the result (skipped only when nothing is pending): %s" % okd,
                  None if okd else dict(pending=opt_locals, pushes_after_loop=push_blocks, returns_reached=leak)))
    return obs


def map_forwards(fx):
    import p_gate
    import views
    obs = list(p_gate.extents_forwarded(fx))
    if fx.fn(MAP) is None:
        return obs
    # the functions below map_extents that build an Extent (map_extents itself, or a From impl it maps with)
    cg = q.callgraph(fx)
    builders = [MAP] + sorted(x for x in cg.reach(MAP) if x in fx.fns and fx.fns[x].crate == "libfs" and x != MAP)
    k = 0
    for bp in builders:
      f = views.view(fx, bp, depth=4)
      for bi, b in enumerate(f.blocks):
        if b.get("cleanup") or b.get("origin", bp) != bp:
            continue
        for s in b["stmts"]:
            rv = s["rv"]
            if rv["k"] == "agg" and rv.get("adt") == EXTENT:
                for fname in ("start", "end"):
                    i = rv["fnames"].index(fname)
                    l = op_local(rv["fields"][i])
                    src = _shallow_source(f, l) if l is not None else ("other", "const")
                    if fname == "start":
                        ok = src[0] == "field" and src[2] == "fe_logical"
                    else:
                        ok = src[0] == "bin" and src[1] in ("Add", "AddWithOverflow") and \
                            sorted(x[2] for x in src[2] if x[0] == "field") == ["fe_length", "fe_logical"] and \
                            len(set(_root_local(f, x[1]) for x in src[2] if x[0] == "field")) == 1
                    obs.append(Ob("R-TABLE", mkkey("R-TABLE", MAP, "Extent." + fname, k, "kernel-fields"), ok,
                                  "%s:%d" % (s["span"]["file"], s["span"]["line"]), MAP,
                                  "reported range `%s` is %s" % (fname, "fe_logical" if (ok and fname == "start") else
                                                                  "fe_logical + fe_length of the same kernel extent" if ok else "computed from %s" % (src,)),
                                  None if ok else dict(source=str(src))))
                k += 1
    if k == 0:
        obs.append(anchor_ob("R-TABLE", "map_extents builds libfs::Extent values"))
    return obs


def segments_from_seek(fx):
    import views
    obs = []
    f = views.view(fx, NSS, depth=4, extra_stop=("libfs::linux::lseek",)) if fx.fn(NSS) is not None else None
    if f is None:
        return [anchor_ob("R-TABLE", NSS)]
    LSEEK = "libfs::linux::lseek"
    # the returned pair
    for bi, b in enumerate(f.blocks):
        if b.get("cleanup"):
            continue
        for s in b["stmts"]:
            rv = s["rv"]
            if rv["k"] == "agg" and rv.get("ak") == "tuple" and len(rv["fields"]) == 2:
                for i, nm in enumerate(("data offset", "hole offset")):
                    l = op_local(rv["fields"][i])
                    if l is None:
                        continue
                    atoms, fields, seen = Prov(f).origins(l)
                    calls = set(a.what for a in atoms if a.kind == "call")
                    others = [a for a in atoms if a.kind in ("const", "arg", "bin")]
                    ok = bool(calls) and calls <= {LSEEK, "std::fs::Metadata::len", "std::fs::File::metadata"} and LSEEK in calls and not others
                    obs.append(Ob("R-TABLE", mkkey("R-TABLE", NSS, nm, 0, "from-seek"), ok,
                                  "%s:%d" % (s["span"]["file"], s["span"]["line"]), NSS,
                                  "returned %s comes from %s" % (nm, sorted(c.split("::")[-1] for c in calls)),
                                  None if ok else dict(origins=[repr(a) for a in atoms])))
    # SEEK_HOLE is asked from the data offset just found
    hole = [s for bi, b in enumerate(f.blocks) for s in b["stmts"]
            if s["rv"]["k"] == "agg" and s["rv"].get("adt", "").endswith("SeekFrom") and s["rv"].get("variant") == "Hole"]
    okh = False
    for s in hole:
        l = op_local(s["rv"]["fields"][0])
        atoms, fields, seen = Prov(f).origins(l) if l is not None else ([], set(), set())
        if any(a.kind == "call" and a.what == LSEEK for a in atoms):
            okh = True
    obs.append(Ob("R-TABLE", mkkey("R-TABLE", NSS, "SeekFrom::Hole", 0, "from-data-offset"), okh, f.loc(), NSS,
                  "the hole search starts at the data offset returned by the data search: %s" % okh))
    if len(obs) < 3:
        obs.append(anchor_ob("R-TABLE", "next_sparse_segments returns (data, hole)"))
    return obs


def c19(ctx):
    fx = ctx.fx("A")
    ctx.add(map_forwards(fx))
    ctx.add(merge_linear(fx))
    ctx.add(merge_guard(fx))
    ctx.rep.extra["merge_guard_undecided"] = merge_guard.notes
    ctx.add(segments_from_seek(fx))
