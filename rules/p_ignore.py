"""C17: the root of the walk is never given to the gitignore matcher.

git applies a .gitignore to what is *in* its directory, never to the directory itself.  `Gitignore::matched` is
handed the walked entry's path; for the root entry that path is the source as the user spelt it, and a
single-component relative spelling (`build`) is matched like any file name -- by a pattern `build`, `b*`, `*` --
so the whole source is pruned and xcp exits 0 having copied nothing.  Structural clause: in the closure that
`filter_entry` runs, every call of the matcher is control-dependent on a test of the entry's depth.
"""
from engine import Ob, mkkey, anchor_ob
import q
from names import *

MATCHERS = ("ignore::gitignore::Gitignore::matched", "ignore::gitignore::Gitignore::matched_path_or_any_parents")
DEPTH = "walkdir::dent::DirEntry::depth"


def root_never_matched(fx):
    import views
    obs = []
    w = views.walker_view(fx)
    if w is None:
        return [anchor_ob("R-ORDER", "a thread role that iterates a WalkDir")]
    seen = set()
    n = 0
    for bi, t in q.calls_to(w, "walkdir::IntoIter::filter_entry"):
        for fv in t["fn"].get("fnvals", []):
            if fv in seen or fv not in fx.fns:
                continue
            seen.add(fv)
            v = views.view(fx, fv, depth=6) or fx.fns[fv]
            groups = {}
            for m in MATCHERS:
                for b2, t2 in q.calls_to(v, m):
                    sp = (m, t2["span"]["file"], t2["span"]["line"], t2["span"].get("col"))
                    groups.setdefault(sp, []).append((b2, t2))
            for k, (sp, sites) in enumerate(sorted(groups.items())):
                # (a threaded view holds one copy of the call per known-fact state: every copy must be gated,
                # all by the same outcome of the depth test)
                verdicts = []
                for want in (True, False):
                    rs = [q.gated(v, b2, "call", DEPTH, want) for b2, t2 in sites]
                    verdicts.append((all(r[0] for r in rs), rs[0][1]))
                ok = any(x[0] for x in verdicts)
                why = [x[1] for x in verdicts if x[0]] or [verdicts[0][1]]
                t2 = sites[0][1]
                n += 1
                obs.append(Ob("R-ORDER", mkkey("R-ORDER", "filter_entry-closure", sp[0], k, "not-for-root"), ok, q.loc_of(t2), fv,
                              "the matcher is consulted only for entries below the root of the walk: %s" % why[0],
                              None if ok else dict(note="the root entry's path is the source as spelt on the command line; "
                                                        "a one-component relative spelling is matched like a file name")))
    if n == 0:
        obs.append(anchor_ob("R-ORDER", "a filter_entry closure that consults Gitignore::matched"))
    return obs


MATCH_PREDS = {"ignore::Match::<T>::is_ignore": "is_ignore", "ignore::Match::<T>::is_none": "is_none",
               "ignore::Match::<T>::is_whitelist": "is_whitelist"}


def verdict_readback(fx):
    """What the matcher answers is one of None / Ignore / Whitelist, and an entry is excluded iff the answer is
    Ignore: a rule re-included by a later `!pattern` (Whitelist) is kept, like an unmatched one.  The filter must
    read the answer in a way that separates Ignore from *both* others: `is_ignore()`, or `is_none()` together with
    `is_whitelist()`, or a match on the value."""
    from cfg import defuse
    import views
    obs = []
    n = 0
    for f in fx.fns.values():
        if f.crate != "libxcp" or f.from_expansion and not f.is_closure:
            continue
        for m in MATCHERS:
            for bi, t in q.calls_to(f, m):
                if t["dest"].get("p"):
                    continue
                du = defuse(f)
                preds, switched = set(), False
                seen, work = set(), [t["dest"]["l"]]
                while work:
                    x = work.pop()
                    if x in seen:
                        continue
                    seen.add(x)
                    for site, how in du.uses.get(x, []):
                        nd = site.node
                        if site.is_term:
                            if nd["k"] == "call":
                                o_ = q.names(nd)[0] or ""
                                if o_ in MATCH_PREDS:
                                    preds.add(MATCH_PREDS[o_])
                            continue
                        rv = nd["rv"]
                        if rv["k"] in ("ref", "use") and not nd["lhs"].get("p"):
                            work.append(nd["lhs"]["l"])
                        elif rv["k"] == "discr":
                            switched = True
                ok = switched or "is_ignore" in preds or {"is_none", "is_whitelist"} <= preds
                n += 1
                obs.append(Ob("R-TABLE", mkkey("R-TABLE", f.root if f.is_closure else f.path, m, n - 1, "verdict"), ok, q.loc_of(t), f.path,
                              "the matcher's answer is read by %s: %s" % (
                                  sorted(preds) or ("a match" if switched else "nothing"),
                                  "Ignore is told apart from None and Whitelist" if ok else
                                  "a re-included (Whitelist) entry and an unmatched one are not both kept"),
                              None if ok else dict(predicates=sorted(preds))))
    if n == 0:
        obs.append(anchor_ob("R-TABLE", "a Gitignore::matched call in libxcp"))
    return obs
