"""C17: the root of the walk is never given to the gitignore matcher.

git applies a .gitignore to what is *in* its directory, never to the directory itself.  `Gitignore::matched` is
handed the walked entry's path; for the root entry that path is the source as the user spelt it, and a
single-component relative spelling (`build`) is matched like any file name -- by a pattern `build`, `b*`, `*` --
so the whole source is pruned and xcp exits 0 having copied nothing.  Structural clause: in the closure that
`filter_entry` runs, every call of the matcher is control-dependent on a test of the entry's depth.
"""
from engine import Ob, mkkey, anchor_ob
import q
from names import *

MATCHERS = ("ignore::gitignore::Gitignore::matched", "ignore::gitignore::Gitignore::matched_path_or_any_parents")
DEPTH = "walkdir::dent::DirEntry::depth"


def root_never_matched(fx):
    import views
    obs = []
    w = views.walker_view(fx)
    if w is None:
        return [anchor_ob("R-ORDER", "a thread role that iterates a WalkDir")]
    seen = set()
    n = 0
    for bi, t in q.calls_to(w, "walkdir::IntoIter::filter_entry"):
        for fv in t["fn"].get("fnvals", []):
            if fv in seen or fv not in fx.fns:
                continue
            seen.add(fv)
            v = views.view(fx, fv, depth=6) or fx.fns[fv]
            groups = {}
            for m in MATCHERS:
                for b2, t2 in q.calls_to(v, m):
                    sp = (m, t2["span"]["file"], t2["span"]["line"], t2["span"].get("col"))
                    groups.setdefault(sp, []).append((b2, t2))
            for k, (sp, sites) in enumerate(sorted(groups.items())):
                # (a threaded view holds one copy of the call per known-fact state: every copy must be gated,
                # all by the same outcome of the depth test)
                verdicts = []
                for want in (True, False):
                    rs = [q.gated(v, b2, "call", DEPTH, want) for b2, t2 in sites]
                    verdicts.append((all(r[0] for r in rs), rs[0][1]))
                ok = any(x[0] for x in verdicts)
                why = [x[1] for x in verdicts if x[0]] or [verdicts[0][1]]
                t2 = sites[0][1]
                n += 1
                obs.append(Ob("R-ORDER", mkkey("R-ORDER", "filter_entry-closure", sp[0], k, "not-for-root"), ok, q.loc_of(t2), fv,
                              "the matcher is consulted only for entries below the root of the walk: %s" % why[0],
                              None if ok else dict(note="the root entry's path is the source as spelt on the command line; "
                                                        "a one-component relative spelling is matched like a file name")))
    if n == 0:
        obs.append(anchor_ob("R-ORDER", "a filter_entry closure that consults Gitignore::matched"))
    return obs
