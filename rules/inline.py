"""MIR-level inlining of workspace helpers, so that context-dependent rules (control dependence on a gate,
ordering, "this arm fails on every path", retry loops) see through function boundaries: extracting or merging
private helpers must not change a verdict.

`inlined(fx, fn, depth)` returns a synthetic Fn whose first len(fn.blocks) blocks are fn's own blocks *at the same
indices* (a call to an inlinable workspace function is replaced by a goto into a copy of the callee), followed by
the copied callee blocks.  Locals of the callee are appended (shifted).  Closures, recursive calls, trait-object
calls and functions given in `stop` are left as calls.  Spans are kept, so reports still point at source lines."""
import copy

import facts

MAX_BLOCKS = 6000


def _shift_place(p, lo):
    q = {"l": p["l"] + lo}
    if p.get("p"):
        pr = []
        for e in p["p"]:
            if isinstance(e, dict) and "idx" in e:
                pr.append({"idx": e["idx"] + lo})
            else:
                pr.append(e)
        q["p"] = pr
    return q


_POFF = [0]


def _shift_op(o, lo):
    if "cp" in o:
        return {"cp": _shift_place(o["cp"], lo)}
    if "mv" in o:
        return {"mv": _shift_place(o["mv"], lo)}
    c = o.get("c")
    if c is not None and "promoted" in c and _POFF[0]:
        c2 = dict(c)
        c2["promoted"] = c["promoted"] + _POFF[0]
        return {"c": c2}
    return o


def _shift_rv(rv, lo):
    r = dict(rv)
    k = rv["k"]
    if k in ("use", "repeat", "cast"):
        r["op"] = _shift_op(rv["op"], lo)
    elif k in ("ref", "rawptr", "discr"):
        r["pl"] = _shift_place(rv["pl"], lo)
    elif k == "bin":
        r["a"] = _shift_op(rv["a"], lo)
        r["b"] = _shift_op(rv["b"], lo)
    elif k == "un":
        r["a"] = _shift_op(rv["a"], lo)
    elif k == "agg":
        r["fields"] = [_shift_op(f, lo) for f in rv["fields"]]
    return r


def _shift_block(b, lo, bo, ret_to, origin):
    nb = {"stmts": [], "origin": origin}
    if b.get("cleanup"):
        nb["cleanup"] = True
    for s in b["stmts"]:
        nb["stmts"].append({"lhs": _shift_place(s["lhs"], lo), "rv": _shift_rv(s["rv"], lo), "span": s["span"]})
    t = b["term"]
    k = t["k"]
    nt = dict(t)
    if k == "goto":
        nt["target"] = t["target"] + bo
    elif k == "switch":
        nt["op"] = _shift_op(t["op"], lo)
        nt["targets"] = [[v, tb + bo] for v, tb in t["targets"]]
        nt["otherwise"] = t["otherwise"] + bo
    elif k == "drop":
        nt["pl"] = _shift_place(t["pl"], lo)
        nt["target"] = t["target"] + bo
        if "unwind" in t:
            nt["unwind"] = t["unwind"] + bo
    elif k == "assert":
        nt["cond"] = _shift_op(t["cond"], lo)
        nt["target"] = t["target"] + bo
    elif k == "call":
        nt["args"] = [_shift_op(a, lo) for a in t["args"]]
        nt["dest"] = _shift_place(t["dest"], lo)
        if t.get("target") is not None:
            nt["target"] = t["target"] + bo
        if "unwind" in t:
            nt["unwind"] = t["unwind"] + bo
        f = t.get("fn") or {}
        if "indirect" in f:
            nf = dict(f)
            nf["indirect"] = _shift_op(f["indirect"], lo)
            nt["fn"] = nf
    elif k == "return":
        if ret_to is None:
            nt = {"k": "unreachable", "span": t["span"]}
        else:
            nt = {"k": "goto", "target": ret_to, "span": t["span"], "was_return": True}
    nb["term"] = nt
    return nb


def _not_overridden(fx, path, _memo={}):
    k = (id(fx), path)
    if k not in _memo:
        tr, _, meth = path.rpartition("::")
        suffix = " as %s>::%s" % (tr, meth)
        _memo[k] = bool(tr) and not any(q.endswith(suffix) for q in fx.fns)
    return _memo[k]


def _closure_tags(fx, _memo={}):
    k = id(fx)
    if k not in _memo:
        d = {}
        for p, g in fx.fns.items():
            if g.is_closure:
                sp = g.span
                d["closure@%s:%d:%d" % (sp.get("file"), sp.get("line"), sp.get("col", 0))] = p
        _memo[k] = d
    return _memo[k]


def closure_of(fx, fn, operand, depth=0):
    """The closure a (generic) callable operand denotes, by walking back through moves, borrows and parameter
    passing of an inlined view to the closure aggregate (or to a local whose type names the closure)."""
    import cfg as _cfg
    if depth > 12:
        return None
    pl = operand.get("mv") or operand.get("cp")
    if pl is None:
        c = operand.get("c") or {}
        return c.get("closure")
    if [e for e in pl.get("p", []) if e != "deref"]:
        return None
    l = pl["l"]
    ty = fn.locals[l]["ty"] if l < len(fn.locals) else ""
    if "closure@" in ty:
        for tag, p in _closure_tags(fx).items():
            if tag in ty and ty.count("closure@") == 1:
                return p
    ds = _cfg.whole_defs(fn, l)
    if len(ds) != 1 or ds[0].is_term:
        return None
    rv = ds[0].node["rv"]
    if rv["k"] == "agg" and rv.get("ak") == "closure":
        return rv.get("closure")
    if rv["k"] in ("use", "cast"):
        return closure_of(fx, fn, rv["op"], depth + 1)
    if rv["k"] == "ref":
        return closure_of(fx, fn, {"cp": rv["pl"]}, depth + 1)
    return None


def fnitem_of(fx, fn, operand, depth=0):
    """The function item a generic callable operand denotes (`target_base(.., paths::is_dir)`), by provenance."""
    import cfg as _cfg
    if depth > 12:
        return None
    c = operand.get("c")
    if c is not None:
        return c.get("fn")
    pl = operand.get("mv") or operand.get("cp")
    if pl is None or [e for e in pl.get("p", []) if e != "deref"]:
        return None
    ds = _cfg.whole_defs(fn, pl["l"])
    if len(ds) != 1 or ds[0].is_term:
        return None
    rv = ds[0].node["rv"]
    if rv["k"] in ("use", "cast"):
        return fnitem_of(fx, fn, rv["op"], depth + 1)
    if rv["k"] == "ref":
        return fnitem_of(fx, fn, {"cp": rv["pl"]}, depth + 1)
    return None


FN_CALLS = ("core::ops::function::Fn::call", "core::ops::function::FnMut::call_mut", "core::ops::function::FnOnce::call_once")


def resolve_closures(fx, fn):
    """In an inlined view, calls through a generic callable parameter (`f(x)` inside `fn each<F: FnMut(..)>(f: F)`)
    and calls that are handed a closure through such a parameter (`thread::spawn(f)`) get their closure resolved
    now that the helper sits inside its caller.  Returns True if a call became inlinable."""
    changed = False
    for b in fn.blocks:
        t = b["term"]
        if t["k"] != "call" or b.get("cleanup"):
            continue
        f = t.get("fn") or {}
        if f.get("orig") in FN_CALLS and t["args"] and not (f.get("path") in fx.fns and fx.fns[f["path"]].is_closure):
            c = closure_of(fx, fn, t["args"][0])
            if c is not None and c in fx.fns:
                nf = dict(f)
                nf.update(path=c, kind="item", local=True, fnvals=[c])
                t["fn"] = nf
                changed = True
                continue
            fi = fnitem_of(fx, fn, t["args"][0])
            if fi is not None and fi.get("path") and len(t["args"]) == 2:
                # a function item passed as the callable: the call is a plain call of that function with the
                # tuple's elements as arguments
                tup = t["args"][1].get("mv") or t["args"][1].get("cp")
                fields = None
                if tup is not None and not tup.get("p"):
                    for s_ in reversed(b["stmts"]):
                        if s_["lhs"]["l"] == tup["l"] and not s_["lhs"].get("p") and s_["rv"]["k"] == "agg" and s_["rv"].get("ak") == "tuple":
                            fields = s_["rv"]["fields"]
                            break
                if fields is not None:
                    t["fn"] = {"orig": fi.get("orig", fi["path"]), "path": fi["path"], "kind": "item",
                               "local": fi["path"] in fx.fns, "krate": fi.get("krate"), "resolved_from": f.get("orig")}
                    t["args"] = list(fields)
                    t["arg_tys"] = []
                    changed = changed or fi["path"] in fx.fns
            continue
        # closures passed on through a generic parameter: make them visible as function values of this call
        fv = list(f.get("fnvals") or [])
        add = []
        for a in t["args"]:
            pl = a.get("mv") or a.get("cp")
            if pl is None or pl.get("p"):
                continue
            ty = fn.locals[pl["l"]]["ty"] if pl["l"] < len(fn.locals) else ""
            if "closure@" in ty or len(ty) <= 2 or ty in ("F", "G", "Fun"):
                c = closure_of(fx, fn, a)
                if c is not None and c in fx.fns and c not in fv and c not in add:
                    add.append(c)
        if add and "indirect" not in f:
            nf = dict(f)
            nf["fnvals"] = fv + add
            t["fn"] = nf
    return changed


def inlined(fx, fn, depth=3, stop=(), _seen=None, _cache={}):
    key = (id(fx), fn.path, depth, tuple(sorted(stop)))
    synthetic = getattr(fn, "inlined_from", None) is not None
    if synthetic:
        key = None
    if _seen is None and key is not None and key in _cache:
        return _cache[key]
    seen = set(_seen or ()) | {fn.path}
    import expand
    fn = expand.expanded(fx, fn)
    blocks = [dict(b, origin=b.get("origin", fn.path)) for b in copy.deepcopy(fn.blocks)]
    locals_ = list(fn.locals)
    debug = list(fn.debug)
    proms = list(fn.raw.get("promoted", []))
    rets = list(fn.raw.get("inlined_rets", []))
    n_own = len(blocks)
    if depth > 0:
        for bi in range(n_own):
            t = blocks[bi]["term"]
            if t["k"] != "call" or blocks[bi].get("cleanup"):
                continue
            f = t.get("fn") or {}
            p = f.get("path")
            g = fx.fns.get(p)
            if g is not None and f.get("kind") in ("virtual", "unresolved") and p not in seen and p not in stop and _not_overridden(fx, p):
                pass        # a provided trait method nobody overrides: the dyn call can only run this body
            elif g is None or p in seen or p in stop or f.get("kind") not in (None, "item"):
                continue
            closure_call = False
            if g.is_closure:
                # a closure called directly by the function that made it (`let f = || ..; f()`): Fn*::call(env, (args,))
                if f.get("orig") not in ("core::ops::function::Fn::call", "core::ops::function::FnMut::call_mut",
                                         "core::ops::function::FnOnce::call_once") or len(t["args"]) != 2:
                    continue
                closure_call = True
            if g.from_expansion:
                continue        # derived impls (PartialEq::eq, Clone::clone, ...) stay calls: rules name them by trait item
            if len(blocks) + len(g.blocks) > MAX_BLOCKS:
                continue
            gi = inlined(fx, g, depth - 1, stop, seen)
            lo = len(locals_)
            locals_.extend(gi.locals)
            # the callee's return place(s): an Err put there is an error the caller receives (its handling is a
            # separate R-ERR obligation at the call site), so path predicates may treat it as a failing exit
            if gi.locals and gi.locals[0]["ty"].startswith(("core::result::Result<", "core::option::Option<core::result::Result<")):
                rets.append(lo)
            rets.extend(x + lo for x in gi.raw.get("inlined_rets", []))
            for d in gi.debug:
                debug.append({"name": d["name"], "pl": _shift_place(d["pl"], lo)})
            # layout: [entry block][callee blocks...][return block]
            entry = len(blocks)
            bo = entry + 1
            ret_block = bo + len(gi.blocks) if t.get("target") is not None else None
            estmts = []
            if closure_call:
                estmts.append({"lhs": {"l": lo + 1}, "rv": {"k": "use", "op": t["args"][0]}, "span": t["span"]})
                tup = t["args"][1].get("mv") or t["args"][1].get("cp")
                for i in range(gi.argc - 1):
                    if tup is None:
                        break
                    pl = {"l": tup["l"], "p": list(tup.get("p", [])) + [{"f": i}]}
                    estmts.append({"lhs": {"l": lo + 2 + i}, "rv": {"k": "use", "op": {"mv": pl}}, "span": t["span"]})
            else:
                for i, a in enumerate(t["args"]):
                    if i < gi.argc:
                        estmts.append({"lhs": {"l": lo + i + 1}, "rv": {"k": "use", "op": a}, "span": t["span"]})
            blocks.append({"stmts": estmts, "term": {"k": "goto", "target": bo, "span": t["span"]}, "origin": fn.path,
                           "inline_entry": p})
            _POFF[0] = len(proms)
            try:
                for b in gi.blocks:
                    blocks.append(_shift_block(b, lo, bo, ret_block, b.get("origin", p)))
            finally:
                _POFF[0] = 0
            proms.extend(gi.raw.get("promoted", []))
            if ret_block is not None:
                blocks.append({"stmts": [{"lhs": t["dest"], "rv": {"k": "use", "op": {"mv": {"l": lo}}}, "span": t["span"]}],
                               "term": {"k": "goto", "target": t["target"], "span": t["span"]}, "origin": fn.path,
                               "inline_return": p})
            blocks[bi]["term"] = {"k": "goto", "target": entry, "span": t["span"], "inlined_call": p}
    raw = dict(fn.raw)
    raw["blocks"] = blocks
    raw["locals"] = locals_
    raw["debug"] = debug
    raw["promoted"] = proms
    raw["inlined_rets"] = rets
    out = facts.Fn(raw, fn.crate)
    out.inlined_from = getattr(fn, "inlined_from", None) or fn.path
    out.fx = fx
    out.n_own = n_own
    if _seen is None and key is not None:
        _cache[key] = out
    return out
