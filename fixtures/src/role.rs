use std::fs::File;
use std::path::Path;

// entry point analogous to CopyDriver::copy(sources, dest): seeded (from -> SRC, to -> DST) by the control
pub fn entry(from: &Path, to: &Path) -> std::io::Result<()> {
    good_copy(from, to)?;
    bad_swapped(from, to)?;
    Ok(())
}

pub fn good_copy(from: &Path, to: &Path) -> std::io::Result<()> {
    let i = File::open(from)?;
    let o = File::create(to)?;
    o.set_permissions(i.metadata()?.permissions())?;
    Ok(())
}

pub fn bad_swapped(from: &Path, to: &Path) -> std::io::Result<()> {
    let i = File::open(to)?;
    let o = File::create(from)?;
    Ok(())
}
