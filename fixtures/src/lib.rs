//! Controls for the rule engines: for each rule family a minimal construct that
//! MUST be reported (`bad_*`) and a twin differing only in the offending line
//! that MUST NOT (`good_*`).  Analysed by the same driver on every run; never
//! executed.
#![allow(dead_code, unused_variables, unused_must_use, clippy::all)]

pub mod err;
pub mod probe;
pub mod order;
pub mod role;
pub mod short;
