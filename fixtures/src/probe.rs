use std::path::Path;

pub fn bad_blind_probe(p: &Path) -> bool {
    p.exists()
}

pub fn good_fallible_probe(p: &Path) -> std::io::Result<bool> {
    match p.symlink_metadata() {
        Ok(_) => Ok(true),
        Err(e) if e.kind() == std::io::ErrorKind::NotFound => Ok(false),
        Err(e) => Err(e),
    }
}
