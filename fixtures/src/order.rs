use std::fs::File;
use std::os::unix::fs::fchown;

pub struct Cfg {
    pub owner: bool,
    pub no_perms: bool,
}

pub fn bad_chown_after_chmod(i: &File, o: &File, c: &Cfg) -> std::io::Result<()> {
    if !c.no_perms {
        o.set_permissions(i.metadata()?.permissions())?;
    }
    if c.owner {
        fchown(o, Some(0), Some(0))?;
    }
    Ok(())
}

pub fn good_chown_before_chmod(i: &File, o: &File, c: &Cfg) -> std::io::Result<()> {
    if c.owner {
        fchown(o, Some(0), Some(0))?;
    }
    if !c.no_perms {
        o.set_permissions(i.metadata()?.permissions())?;
    }
    Ok(())
}

pub fn bad_gate_polarity(i: &File, o: &File, c: &Cfg) -> std::io::Result<()> {
    if c.no_perms {
        o.set_permissions(i.metadata()?.permissions())?;
    }
    Ok(())
}

pub fn bad_ungated(i: &File, o: &File, c: &Cfg) -> std::io::Result<()> {
    o.set_permissions(i.metadata()?.permissions())?;
    Ok(())
}
