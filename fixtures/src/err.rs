use std::fs::remove_file;
use std::io;
use std::path::Path;

pub enum Update {
    Progress(u64),
    Error(String),
}

pub trait Updater {
    fn send(&self, u: Update) -> io::Result<()>;
}

pub fn bad_discard(p: &Path) -> io::Result<()> {
    let _r = remove_file(p);
    Ok(())
}

pub fn good_propagate(p: &Path) -> io::Result<()> {
    let _r = remove_file(p)?;
    Ok(())
}

pub fn bad_log_only(p: &Path) -> io::Result<()> {
    if let Err(e) = remove_file(p) {
        eprintln!("failed: {}", e);
    }
    Ok(())
}

pub fn good_err_arm(p: &Path) -> io::Result<()> {
    if let Err(e) = remove_file(p) {
        eprintln!("failed: {}", e);
        return Err(e);
    }
    Ok(())
}

pub fn bad_ok(p: &Path) -> io::Result<()> {
    remove_file(p).ok();
    Ok(())
}

pub fn bad_is_err(p: &Path) -> io::Result<()> {
    if remove_file(p).is_err() {
        eprintln!("hm");
    }
    Ok(())
}

pub fn good_is_err(p: &Path) -> io::Result<()> {
    if remove_file(p).is_err() {
        return Err(io::Error::new(io::ErrorKind::Other, "x"));
    }
    Ok(())
}

pub fn good_send_error(p: &Path, up: &dyn Updater) -> io::Result<()> {
    if let Err(e) = remove_file(p) {
        up.send(Update::Error(e.to_string()))?;
    }
    Ok(())
}

pub fn bad_send_progress(p: &Path, up: &dyn Updater) -> io::Result<()> {
    if let Err(e) = remove_file(p) {
        up.send(Update::Progress(0))?;
    }
    Ok(())
}

pub fn bad_param(items: Vec<io::Result<u64>>) -> u64 {
    items.into_iter().filter_map(|r| r.ok()).max().unwrap_or(0)
}

pub fn good_param(items: Vec<io::Result<u64>>) -> io::Result<u64> {
    let mut m = 0;
    for r in items {
        let v = r?;
        if v > m {
            m = v;
        }
    }
    Ok(m)
}

pub fn bad_retry(p: &Path) -> io::Result<()> {
    loop {
        match remove_file(p) {
            Ok(()) => return Ok(()),
            Err(_) => continue,
        }
    }
}

pub fn good_panic(p: &Path) {
    if let Err(e) = remove_file(p) {
        panic!("fatal: {}", e);
    }
}

pub fn good_transformed(p: &Path) -> Result<(), String> {
    remove_file(p).map_err(|e| e.to_string())?;
    Ok(())
}

pub fn bad_transformed_dropped(p: &Path) -> Result<(), String> {
    let _x = remove_file(p).map_err(|e| e.to_string());
    Ok(())
}

pub fn good_double(h: std::thread::JoinHandle<io::Result<()>>) -> io::Result<()> {
    h.join().map_err(|_| io::Error::new(io::ErrorKind::Other, "join"))??;
    Ok(())
}

pub fn bad_double(h: std::thread::JoinHandle<io::Result<()>>) -> io::Result<()> {
    let _inner = h.join().map_err(|_| io::Error::new(io::ErrorKind::Other, "join"))?;
    Ok(())
}
