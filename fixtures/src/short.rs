use std::fs::File;
use std::io::{self, Read, Write};

pub enum Upd { Copied(u64) }

fn partial_read(mut f: &File, buf: &mut [u8]) -> io::Result<usize> {
    f.read(buf)
}

pub fn bad_single_shot(f: &File, buf: &mut [u8]) -> io::Result<Upd> {
    let n = partial_read(f, buf)?;
    Ok(Upd::Copied(n as u64))
}

pub fn good_loop(f: &File, buf: &mut [u8], want: usize) -> io::Result<usize> {
    let mut done = 0;
    while done < want {
        let n = partial_read(f, &mut buf[done..])?;
        if n == 0 { break; }
        done += n;
    }
    Ok(done)
}

pub fn good_compare(mut f: &File, buf: &[u8]) -> io::Result<()> {
    let n = f.write(buf)?;
    if n < buf.len() {
        return Err(io::Error::new(io::ErrorKind::WriteZero, "short"));
    }
    Ok(())
}

pub fn bad_write_once(mut f: &File, buf: &[u8]) -> io::Result<()> {
    let _n = f.write(buf)?;
    Ok(())
}
